#!/usr/bin/env python3
"""usage: adhoc_mut.py PROP file 'old' 'new'  -- apply a one-off textual mutant in /tmp/wt/mine2 and run the quick check."""
import os, subprocess, sys
WT=os.environ.get('SEED_WT','/tmp/wt/mine2')
prop, f, old, new = sys.argv[1:5]
tier = sys.argv[5] if len(sys.argv) > 5 else 'quick'
if not os.path.isdir(WT): subprocess.run(f'git -C /repo worktree add --detach {WT} HEAD', shell=True)
subprocess.run(f'git -C {WT} checkout -q --detach $(git -C /repo rev-parse HEAD); git -C {WT} checkout -- .', shell=True)
p=os.path.join(WT,f); s=open(p).read()
assert s.count(old)>=1, 'pattern not found'
open(p,'w').write(s.replace(old,new,1))
e=dict(os.environ); e['VERIF_REPO']=WT; e['VERIF_EVIDENCE_DIR']='/tmp/wt/evidence_scratch'
r=subprocess.run(f'cd /verif && ./check {prop} --tier {tier}', shell=True, env=e, capture_output=True, text=True)
print('exit', r.returncode)
for l in r.stdout.splitlines():
  if 'violation kind' in l or l.startswith('VIOLATION') or l.startswith('['): print(l[:300])
if r.returncode==2: print(r.stderr[-1500:])
subprocess.run(f'git -C {WT} checkout -- .', shell=True)
