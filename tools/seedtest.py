#!/usr/bin/env python3
"""Confirm a sub-agent's mutant and run our check against it.

usage: tools/seedtest.py CXX K [--tests] [--tier quick] [--keep]
Reads /tmp/wtout/CXX/mK.{diff,_demo.py,_meta.json}; works in the scratch worktree /tmp/wt/mine
(never /repo); writes /verif/seeded/CXX-mK/{patch.diff,demo.py,meta.json}.
"""
import json, os, subprocess, sys, time, shutil

WT = os.environ.get('SEED_WT', '/tmp/wt/mine2')
TESTMAP = {
  'brax/kinematics.py': ['brax/kinematics_test.py', 'brax/spring/pipeline_test.py'],
  'brax/scan.py': ['brax/scan_test.py', 'brax/kinematics_test.py'],
  'brax/math.py': ['brax/math_test.py', 'brax/kinematics_test.py'],
  'brax/base.py': ['brax/base_test.py', 'brax/com_test.py', 'brax/kinematics_test.py'],
  'brax/com.py': ['brax/com_test.py'],
  'brax/contact.py': ['brax/contact_test.py'],
  'brax/actuator.py': ['brax/actuator_test.py'],
  'brax/io/mjcf.py': ['brax/io/mjcf_test.py'],
  'brax/fluid.py': ['brax/fluid_test.py'],
  'brax/training/replay_buffers.py': ['brax/training/replay_buffers_test.py'],
  'brax/envs/wrappers/training.py': ['brax/envs/wrappers/training_test.py', 'brax/envs/wrappers/gym_test.py', 'brax/envs/wrappers/dm_env_test.py'],
  'brax/envs/': ['brax/envs/env_test.py', 'brax/envs/wrappers/training_test.py'],
  'brax/generalized/': ['brax/generalized/dynamics_test.py', 'brax/generalized/pipeline_test.py', 'brax/generalized/constraint_test.py', 'brax/actuator_test.py'],
  'brax/spring/': ['brax/spring/pipeline_test.py', 'brax/spring/joints_test.py', 'brax/actuator_test.py'],
  'brax/positional/': ['brax/positional/pipeline_test.py', 'brax/positional/joints_test.py', 'brax/actuator_test.py'],
  'brax/training/': ['brax/training/replay_buffers_test.py', 'brax/envs/wrappers/training_test.py'],
}

def sh(cmd, **kw):
  return subprocess.run(cmd, shell=True, capture_output=True, text=True, **kw)

def env():
  e = dict(os.environ); e['PYTHONPATH'] = WT; e['JAX_PLATFORMS'] = 'cpu'; return e

def main():
  pid_src, k = sys.argv[1], sys.argv[2]
  pid = pid_src[:3]
  rnd = pid_src[3:]   # '' or 'r2' (second round of sub-agents)
  tier = 'quick'
  if '--tier' in sys.argv: tier = sys.argv[sys.argv.index('--tier') + 1]
  src = f'/tmp/wtout/{pid_src}'
  dst = f'/verif/seeded/{pid}-{rnd}m{k}'
  import glob as _glob
  rebased = bool(_glob.glob(f'{dst}/patch_before_fix_*.diff'))   # the kept patch was rebased onto a later fix commit
  if os.path.isdir(dst) and (rebased or not os.path.exists(f'{src}/m{k}.diff')):
    diff, demo = f'{dst}/patch.diff', f'{dst}/demo.py'
    meta = json.load(open(f'{dst}/meta.json'))
  else:
    diff, demo = f'{src}/m{k}.diff', f'{src}/m{k}_demo.py'
    meta = json.load(open(f'{src}/m{k}_meta.json')) if os.path.exists(f'{src}/m{k}_meta.json') else {}
  if not os.path.isdir(WT):
    sh(f'git -C /repo worktree add --detach {WT} HEAD')
  sh(f'git -C {WT} checkout -q --detach $(git -C /repo rev-parse HEAD); git -C {WT} checkout -- .')
  out = {'property': pid, 'mutant': f'm{k}', 'summary': meta.get('summary'), 'needs': meta.get('needs')}
  r0 = sh(f'cd /tmp && /venv/bin/python {demo}', env=env()); out['demo_without_change'] = r0.returncode
  a = sh(f'git -C {WT} apply {diff}')
  if a.returncode != 0:
    # the patch was written against an earlier commit (before a later fix: commit touched a neighbouring line)
    a = sh(f'git -C {WT} apply -C1 {diff}')
    out['apply_note'] = 'applied with reduced context (a later fix commit changed a neighbouring line)'
  if a.returncode != 0:
    a = sh(f'cd {WT} && patch -p1 --fuzz=3 --no-backup-if-mismatch < {diff}')
    out['apply_note'] = 'applied with patch --fuzz=3'
  if a.returncode != 0:
    print('APPLY FAILED', a.stderr, a.stdout); sys.exit(3)
  touched = sh(f'git -C {WT} diff --name-only').stdout.split()
  out['files'] = touched
  try:
    r1 = sh(f'cd /tmp && /venv/bin/python {demo}', env=env()); out['demo_with_change'] = r1.returncode
    if '--tests' in sys.argv:
      tests = []
      for f in touched:
        for key, ts in TESTMAP.items():
          if f == key or (key.endswith('/') and f.startswith(key)):
            for t in ts:
              if t not in tests: tests.append(t)
      t0 = time.time()
      base = json.load(open('/root/.vp/BASELINE.json'))
      desel = []
      for n in base['always_fail']:
        if '::' in n and not n.startswith('::'):
          mod, rest = n.split('::', 1)
          parts = mod.split('.')
          desel.append('/'.join(parts[:-1]) + '.py::' + parts[-1] + '::' + rest)
      dz = ' '.join(f'--deselect {d}' for d in desel if d.split('::')[0] in tests)
      rt = sh(f'cd {WT} && /venv/bin/python -m pytest -q -p no:cacheprovider {dz} {" ".join(tests)} 2>&1 | tail -3', env=env())
      out['tests_cmd'] = f'pytest -q {" ".join(tests)} (in a scratch worktree with the patch applied; tests that already fail on the unmodified tree per BASELINE.json are deselected)'
      out['tests_result'] = rt.stdout.strip().splitlines()[-1] if rt.stdout.strip() else rt.stderr[-300:]
      out['tests_wall_s'] = round(time.time() - t0)
    if '--tests-only' in sys.argv:
      raise SystemExit
    t0 = time.time()
    e = dict(os.environ); e['VERIF_REPO'] = WT; e['VERIF_EVIDENCE_DIR'] = '/tmp/wt/evidence_scratch'
    cp = os.environ.get('CHECK_PROP', pid)
    rc = sh(f'cd /verif && ./check {cp} --tier {tier}', env=e)
    out['check_cmd'] = f'VERIF_REPO=<scratch worktree with patch> ./check {cp} --tier {tier}'
    out['check_exit'] = rc.returncode
    out['check_wall_s'] = round(time.time() - t0)
    vl = [l for l in rc.stdout.splitlines() if l.startswith('VIOLATION') or l.strip().startswith('violation kind')]
    out['check_output'] = vl[:6]
    out['detected'] = rc.returncode == 1
    if cp != pid:
      out['detected_by'] = cp if rc.returncode == 1 else None
    if rc.returncode == 2:
      out['check_stderr'] = rc.stderr[-800:]
  except SystemExit:
    pass
  finally:
    sh(f'git -C {WT} checkout -- .; git -C {WT} clean -fdq')
  # restore our evidence for the clean tree is the caller's business
  os.makedirs(dst, exist_ok=True)
  if diff != f'{dst}/patch.diff':
    shutil.copy(diff, f'{dst}/patch.diff'); shutil.copy(demo, f'{dst}/demo.py')
  old = {}
  if os.path.exists(f'{dst}/meta.json'): old = json.load(open(f'{dst}/meta.json'))
  for key in ('tests_cmd', 'tests_result', 'tests_wall_s', 'check_cmd', 'check_exit', 'check_wall_s', 'check_output', 'detected', 'detected_by'):
    if key not in out and key in old: out[key] = old[key]
  out['agent_meta'] = meta if 'agent_meta' not in meta else meta['agent_meta']
  json.dump(out, open(f'{dst}/meta.json', 'w'), indent=1)
  print(json.dumps({k2: v for k2, v in out.items() if k2 != 'agent_meta'}, indent=1))

main()
