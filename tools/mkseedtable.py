#!/usr/bin/env python3
"""Prints the markdown table of seeded changes (from seeded/*/meta.json) for DESIGN.md section 9.4."""
import glob, json, os
print('| id | file | what it needs in order to manifest | caught by | first violation reported |')
print('|---|---|---|---|---|')
for d in sorted(d for d in glob.glob('/verif/seeded/*') if os.path.isdir(d)):
    m = json.load(open(d + '/meta.json'))
    files = ', '.join(f.replace('brax/', '') for f in m.get('files', []))
    needs = (m.get('needs') or '').replace('\n', ' ').replace('|', '/')
    if len(needs) > 230: needs = needs[:227] + '...'
    by = m.get('detected_by') or m['property']
    tier = 'thorough' if m.get('detected_tier', '').startswith('thorough') else 'quick'
    det = f'{by} ({tier})' if m.get('detected') else 'NOT caught by ' + by + ' ' + tier
    vio = ((m.get('check_output') or [''])[0]).strip().replace('|', '/')
    vio = vio.replace('violation kind=', '')[:120]
    print(f'| {os.path.basename(d)} | {files} | {needs} | {det} | {vio} |')
