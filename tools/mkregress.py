#!/usr/bin/env python3
"""usage: mkregress.py PROP COMMIT NAME [tier] -- reverts fix COMMIT in a scratch worktree, runs the check there, and
stores the (smallest) replay file as regress/PROP/NAME.json; then confirms it passes on /repo."""
import glob, json, os, shutil, subprocess, sys
WT=os.environ.get('SEED_WT','/tmp/wt/mine2')
prop, commit, name = sys.argv[1:4]
tier = sys.argv[4] if len(sys.argv) > 4 else 'quick'
if not os.path.isdir(WT): subprocess.run(f'git -C /repo worktree add --detach {WT} HEAD', shell=True)
subprocess.run(f'git -C {WT} checkout -q --detach $(git -C /repo rev-parse HEAD); git -C {WT} reset -q --hard; git -C {WT} revert -n {commit}', shell=True, check=True)
shutil.rmtree(f'/verif/replay/{prop}', ignore_errors=True)
e=dict(os.environ); e['VERIF_REPO']=WT; e['VERIF_EVIDENCE_DIR']='/tmp/wt/evidence_scratch'
r=subprocess.run(f'cd /verif && ./check {prop} --tier {tier}', shell=True, env=e, capture_output=True, text=True)
print('exit with fix reverted:', r.returncode)
files=sorted(glob.glob(f'/verif/replay/{prop}/*.json'), key=os.path.getsize)
for l in r.stdout.splitlines():
  if 'violation kind' in l: print(l[:250])
subprocess.run(f'git -C {WT} reset -q --hard', shell=True)
if not files: sys.exit('no replay produced')
os.makedirs(f'/verif/regress/{prop}', exist_ok=True)
dst=f'/verif/regress/{prop}/{name}.json'
d=json.load(open(files[0])); d['fixed_by']=commit
json.dump(d, open(dst,'w'), indent=1)
r2=subprocess.run(f'cd /verif && VERIF_EVIDENCE_DIR=/tmp/wt/evidence_scratch ./check {prop} --replay {dst}', shell=True, capture_output=True, text=True)
print('replay on /repo:', r2.returncode, r2.stdout.strip().splitlines()[-1][:200])
