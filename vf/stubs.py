"""brax.training.acting (and everything importing brax.envs) imports brax.v1, which cannot be
imported with the pinned jax (jax.interpreters.batching.BatchTracer is gone). acting only needs
brax.v1.envs for type aliases, so the harness registers an empty stand-in before importing it.
Nothing in the code under test changes."""
import sys
import types


def stub_v1():
  if 'brax.v1' in sys.modules and getattr(sys.modules['brax.v1'], '__verif_stub__', False):
    return
  try:
    import brax.v1.envs  # noqa: F401  pylint: disable=unused-import,import-outside-toplevel
    return
  except Exception:  # pylint: disable=broad-except
    pass
  for k in [k for k in sys.modules if k == 'brax.v1' or k.startswith('brax.v1.')]:
    del sys.modules[k]
  v1 = types.ModuleType('brax.v1')
  v1.__verif_stub__ = True
  v1.__path__ = []
  envs = types.ModuleType('brax.v1.envs')

  class State:  # pylint: disable=missing-class-docstring
    pass

  class Env:  # pylint: disable=missing-class-docstring
    pass

  class Wrapper(Env):  # pylint: disable=missing-class-docstring
    pass

  envs.State, envs.Env, envs.Wrapper = State, Env, Wrapper
  v1.envs = envs
  sys.modules['brax.v1'] = v1
  sys.modules['brax.v1.envs'] = envs
  import brax
  brax.v1 = v1
