"""Per-property registration data for MANIFEST.json (python -m vf.registry writes it)."""
import json
import os

ROOT = os.path.dirname(os.path.dirname(os.path.abspath(__file__)))

CHECKS = {}


def reg(pid, technique, text, note, design_ref, engine='hypothesis'):
  CHECKS[pid] = dict(technique=technique, text=text, note=note, design_ref=design_ref, engine=engine)


reg('C09',
    'property-based testing (Hypothesis): exact algebraic identities on an integer lattice + float64 identities at 1e-12',
    'No counter-example to ~55 polynomial identities of quat/transform/motion/force/inertia algebra on thousands of '
    'random lattice points in [-9,9]^84 evaluated exactly (Schwartz-Zippel: a false identity of degree d survives one '
    'point with probability <= d/19), plus ~30 float identities (matrix form, Rodrigues, Euler, from_to, orthogonals, '
    'inv_3x3, com moves) on unit quaternions at 1e-12. Sampling, not proof.',
    'float64 integer arithmetic below 2^53 is exact; JAX CPU backend evaluates the same expressions users run',
    'DESIGN.md section 4 C09')

reg('C19',
    'property-based testing (Hypothesis): differential against a NumPy double-sum GAE written from the definition; gradient and column-independence metamorphic checks',
    'No counter-example among thousands of generated (T<=12, B<=4) reward/value/mask batches incl. all-zero/all-one/last-step/consecutive '
    'end patterns and lambda/discount end points: value targets and advantages equal the defining double sum at 1e-10, the outputs carry '
    'exactly zero gradient, and a column is bit-identical when the other columns are rewritten. Sampling, not proof.',
    'masks are 0/1 and mutually exclusive per step; float64',
    'DESIGN.md section 4 C19')

reg('C20',
    'property-based testing (Hypothesis): differential against an independent NumPy tanh-normal density, quadrature of the squashed density, '
    'sampler moment test over 4096 derived keys, PPO policy against a hand-written NumPy MLP on normalised observations',
    'No counter-example among generated parameters/actions (|x| up to 40 and +-1e3, scales down to 1e-6): range, mode, scale floor, '
    'log_prob, log-det-Jacobian (finite, even, accurate), normalisation to 1 by quadrature, entropy, inverse, determinism and '
    'reparameterisation; PPO inference fn returns tanh(raw), that log_prob and raw action, or the mode, for array and dict observations '
    'with every policy_obs_key and non-trivial normaliser statistics. Sampling, not proof.',
    'min_std/var_scale >= 1e-3; NumPy/float64 reference; brax.v1 import stubbed (type aliases only)',
    'DESIGN.md section 4 C20')

reg('C17',
    'model-based testing: exhaustive DFS of all operation sequences in a small scope against a Python list model + Hypothesis-generated long histories (pytrees, eager/jit, sharded wrappers on forced host devices)',
    'Exhaustive up to the bound: every sequence of {insert k, sample} of length <= 7 (quick 5) for capacity 1-5 x batch 1-4 x {plain, cyclic, uniform} '
    'agrees with the list model after every operation (held records in order, cursors, size(), returned batch or refusal); Pmap/Pjit wrappers with 2 and 4 '
    'forced host devices exhaustively to depth 4 (quick 3) for per-shard capacity <= 3 (quick 2); beyond that sampled histories of up to 40 ops, capacity <= 64.',
    'list model written from the property text; forced host CPU devices stand in for accelerators; uniform queue never sampled empty',
    'DESIGN.md section 4 C17')

reg('C18',
    'property-based testing (Hypothesis): differential against NumPy weighted population statistics after every update; metamorphic over partitions, batch-axis layouts and integer weights',
    'No counter-example among generated nested observation structures x partitions of 2-200 samples into 1-8 batches (1-2 batch axes) x integer weights x scales '
    '1e-3..1e3 with constant columns: count, mean (1e-12), variance (1e-10), clipped std for biting and default bounds, normalize/denormalize round trip, '
    'integer leaves untouched, max_abs_value clipping. Sampling, not proof.',
    'float64; first batch has positive total weight; NumPy reference',
    'DESIGN.md section 4 C18')

reg('C15',
    'model-based testing: exhaustive enumeration of all termination schedules in a small scope against a plain-Python episode model + Hypothesis-generated longer histories, unrolls and evaluator runs; differential between envs.create(episode_length=None) and a time limit that is never reached',
    'Exhaustive up to the bound: all 256 schedules over inner steps 1-8 x episode_length 1-6 x action_repeat 1-3 x sticky/non-sticky x {training.wrap, envs.create} x '
    '{with, without EvalWrapper}: done, truncation, steps, summed reward, metrics, observation and restored state agree with the model after every wrapped step over '
    '3 episode lengths. Beyond: sampled 24-bit schedules with L<=20, r<=4, acting.generate_unroll chaining/discount/extras and Evaluator.run_evaluation metrics.',
    'scripted deterministic environment stands for any environment; wrapped step is atomic; brax.v1 stubbed',
    'DESIGN.md section 4 C15')

MJ_NOTE = 'MuJoCo 3.13 (float64 C library) compiled from the generator\'s own XML string is the trusted reference; jax_enable_x64'

reg('C01',
    'property-based testing (Hypothesis model generator): differential against MuJoCo forward kinematics, plus a sweep over all 196 ordered forest shapes with <= 6 links',
    'No counter-example among generated articulated models x states: link world positions/rotations equal MuJoCo at 1e-9 and, for links inside the claim, '
    'world velocities at 1e-8 (measured agreement 1e-15). Every ordered forest topology with up to 6 links is exercised at least once per run. '
    'Velocities of stacked/offset links are measured and matched against the recorded known finding. Sampling, not proof.',
    MJ_NOTE, 'DESIGN.md section 4 C01')

reg('C02',
    'property-based testing (Hypothesis model generator): differential against MuJoCo mass matrix, bias, passive, actuator and smooth forces and one Euler step, plus a forest-shape sweep',
    'No counter-example among generated models x states x controls: mass matrix (symmetric, positive definite), bias, passive, actuator and total smooth force equal '
    'MuJoCo at 1e-8 and one contact/limit-free step at 1e-7 (measured agreement 1e-14); all forest shapes with <= 5 links (quick) / <= 6 links (thorough) are swept. Sampling, not proof.',
    MJ_NOTE + '; step compared only away from limits and for cond(M) < 1e8', 'DESIGN.md section 4 C02')

reg('C11',
    'property-based testing (Hypothesis model generator): differential against MuJoCo qfrc_actuator + metamorphic relations (monotone, saturating, local, additive over single-actuator documents)',
    'No counter-example among generated models with 0-10 mixed actuators (several per joint, on slides, in stacks, negative gears, ctrl/force ranges) x states x controls '
    'incl. values exactly on and beyond the range bounds: to_tau equals MuJoCo at 1e-9 (measured 1e-15), unactuated dofs are exactly 0, force is monotone with the sign of '
    'gear, constant beyond the range, and the sum of single-actuator forces. Sampling, not proof.',
    MJ_NOTE, 'DESIGN.md section 4 C11')

reg('C13',
    'property-based testing (Hypothesis document generator): differential of MuJoCo forward kinematics and composite inertia between the original document and mjcf.fuse_bodies(document)',
    'No counter-example among thousands of generated documents with jointless bodies under the world, under jointed bodies and nested (pos only / quat only / both / neither; '
    'geoms by pos/quat and fromto, sites, jointed children): every geom, site and jointed body keeps its world pose at qpos0 and at a random qpos, capsule end points are kept, '
    'composite mass/CoM/inertia of every jointed body is kept, and no jointless body remains. Non-normalised jointless quats are matched against the recorded known finding. Sampling, not proof.',
    'MuJoCo compiles and evaluates both documents; tolerances are those of the fuser\'s six-decimal printing',
    'DESIGN.md section 4 C13')

reg('C14',
    'property-based testing (Hypothesis model generator + fault/feature injection at a generated element): reject/accept oracle for every native pipeline init, structural differential against the spec and MuJoCo qpos0 pose',
    'No counter-example: each of 19 unsupported-feature injections (integrators, elliptic cone, wind, ellipsoid fluid, impratio, site/tendon transmission, affine gain, joint ref, '
    'ball joints alone/limited/stacked, free-joint stiffness, solmix, priority, colliding cylinder, mismatched stack anchors), placed at a generated eligible element of a generated '
    'model, makes loads or init of generalized, spring and positional raise (traced init always, eager init on a subsample); every clean model is accepted and its sizes, link '
    'types, parent order, names, actuator indices, dof maps, init_q and initial pose agree with the document. Sampling, not proof.',
    'MuJoCo must itself compile every injected document; eval_shape(init) stands for jitted init', 'DESIGN.md section 4 C14')

reg('C10',
    'property-based testing (Hypothesis scene generator): differential against NumPy closed-form distances (point-plane, point-point, point-segment, segment-segment)',
    'No counter-example among generated scenes (plane at any pose + 2-3 free bodies with sphere/capsule geoms at local offsets/rotations, per-geom elasticity through both custom paths) x '
    'link poses with constructed gaps in [-0.3, 0.7]: every reported row has the closed-form signed distance (1e-8 for plane/sphere pairs; for capsule pairs within the bound implied by '
    'mjx\'s regularisation constants and never below the true minimum), the normal from geom1 to geom2, the owning links (world = -1), the mean elasticity, and the reported pair set is the expected one. Sampling, not proof.',
    'closed forms written from scratch in NumPy; mjx (third party) regularisation constants enter the capsule tolerances', 'DESIGN.md section 4 C10')

reg('C08',
    'property-based testing (Hypothesis model generator): round-trip oracle inverse(world_to_joint(forward(q, qd))) = (q, qd) and consistency of the coordinates the spring/positional pipelines report, plus a forest-shape sweep',
    'No counter-example among generated models with orthogonal stacks of either handedness (one joint kind, or slides then one hinge) x states inside the Euler chart: joint positions '
    'round-trip at 1e-9 (1e-7 for stacked hinges: arccos conditioning), velocities of free links and single hinges at 1e-9; after 1-3 spring/positional steps the reported '
    'q, qd, j, jd, a_p, a_c are exactly the images of the reported x, xd. Velocities of prismatic/stacked joints are matched against the recorded known finding. Sampling, not proof.',
    'float64; supported-stack domain as stated by the property', 'DESIGN.md section 4 C08')

reg('C12',
    'property-based testing (Hypothesis model generator): metamorphic relation between runs at dt, dt/2, dt/4, dt/8 (Richardson extrapolation of the drift of conserved quantities to zero step size), the energy evaluated both from the pipeline state and by the reference engine MuJoCo for the same document',
    'No counter-example among generated conservative models (springs allowed, arbitrary gravity, any hinge/slide stacks, exact inverse) x initial states: the drift of total mechanical '
    'energy, and of linear momentum minus M g t for free-floating trees, over a fixed 0.064 s horizon halves with the step and extrapolates to zero (1e-5 relative). Sampling, not proof.',
    'energy read through the state\'s own mass matrix; momentum through mass_mx @ qd on the root translation dofs', 'DESIGN.md section 4 C12')

reg('C04',
    'property-based testing (Hypothesis model generator): invariant over a generated history (total momentum balance after every step of a lax.scan rollout) + rest invariant over one step',
    'No counter-example: for free-rooted generated models with any joint stacks, limits and actuators under drawn control sequences, and for two-body collision scenes, the total '
    'linear momentum of the spring and positional pipelines changes by exactly M g dt in every step (1e-9 of the summed link momenta; measured 1e-13), up to the first non-finite step; '
    'a system at rest without gravity, control or contact stays at rest in all three pipelines (spring/positional asserted on the stacks they implement, the rest matched against the known finding). Sampling, not proof.',
    'momentum computed from the state\'s own xd_i and mass; default vel_damping 0', 'DESIGN.md section 4 C04')

reg('C05',
    'property-based testing (Hypothesis model generator): metamorphic relations between two runs of the same code (rigid transform through one compiled function; permuted sibling order; merged vs separate components)',
    'No counter-example among generated contact-free models x states x control sequences: transforming the whole scene by a random rigid transform commutes with 1-5 steps of all three '
    'pipelines (link poses/velocities transformed, non-root joint coordinates unchanged; 1e-8, measured 1e-12), re-listing siblings only permutes per-link/per-dof results (1e-9), and '
    'two merged models evolve exactly as each alone (1e-9). Sampling, not proof.',
    'wide limits, no contacts, exact generalized inverse; diverging trajectories counted, not compared', 'DESIGN.md section 4 C05')

reg('C06',
    'property-based testing (Hypothesis scene/model generators): metamorphic twins (collisions disabled / limits removed), analytic validity predicates over generated histories (push-out, sink bound, rest height, rebound ratio)',
    'No counter-example in six generated families: hovering bodies (inside or outside a declared contact margin) and separated collidable models step exactly like their '
    'collision-free twins with unit link rotations; models whose joints stay strictly inside their ranges step exactly like their limit-free twins (incl. ranges that exclude 0); '
    'a penetrating sphere/box/capsule is never moved inward relative to free fall; dropped spheres, flat boxes and lying capsules never sink more than 5 cm and end within 5 mm of '
    'the analytic rest height (spring + lying capsule: recorded known finding); sphere rebound ratio within the property\'s margins. Sampling, not proof.',
    'margins are the property\'s; brax\'s own contact distance decides "separated"; diverged/limit-reaching cases counted, not compared', 'DESIGN.md section 4 C06')

reg('C16',
    'property-based testing (Hypothesis-drawn keys, action kinds and episode lengths; every env x backend combination enumerated): Env-contract predicates and per-step invariants over generated rollouts, repeat-run and other-members-changed metamorphic checks',
    'For each of the 31 environment x backend combinations, on the rollouts actually run (quick: batch 8 x 200 steps with episode_length 60, plus episode_length 8 on three cheap envs; '
    'thorough: batch 128 x 1000 steps, episode lengths 8/60/1000): declared observation/action sizes hold, done is 0 at reset and always in {0,1}, observations, rewards, q, qd stay '
    'finite, link rotations stay unit to 2e-6, the rollout is bit-reproducible and member 0 does not depend on the other members. swimmer is the recorded known finding. '
    'The property quantifies over all action sequences; this is sampling only.',
    'float32; action sequences expanded from a drawn key; brax.v1 stubbed', 'DESIGN.md section 4 C16')

reg('C07',
    'property-based testing (Hypothesis model/history generators): metamorphic relations between batched and solo runs, between a batch and the same batch with all other members replaced, and between eager and jit evaluation',
    'No counter-example: for generated models (with and without contacts) member i of jit(vmap(init + 2 steps)) equals the solo run (1e-9; 1e-6 with contacts) and is bit-identical when '
    'every other member is replaced, eager equals jit; through training.wrap a scripted environment, PipelineEnvs built from generated models and two bundled environments give every '
    'member the same history as a solo batch-of-one run and a history independent of the other members\' keys and actions across episode ends; stepping eagerly twice from one state '
    'object equals the jitted step; under the domain randomisation wrapper every member\'s reset and step equal pipeline.init/step on its own randomised system. Sampling, not proof.',
    'float64 except the scripted environment (float32); brax.v1 stubbed', 'DESIGN.md section 4 C07')

reg('C03',
    'property-based testing (Hypothesis model/state generators): validity predicate (finite gradient) on generated and constructed singular states in float64 and float32; differential of autodiff against central finite differences at three step sizes with a smoothness filter',
    'No counter-example: for generated orthogonal-stack models, generic and singular states (qd = 0, q = 0, axis-aligned root, all zero), 1-5 steps (quick 1-2) of all three pipelines, and '
    'contact scenes at rest, every gradient component is finite in float64 and float32; on generic states autodiff equals central differences (1e-5 of the gradient scale) in every '
    'direction where the three finite-difference estimates agree. The gradient at an exactly zero second angle of a joint stack (spring/positional) is the recorded known finding. Sampling, not proof.',
    'root rotations perturbed on the unit sphere; non-smooth directions and diverging runs counted, not compared', 'DESIGN.md section 4 C03')

PENDING = {}


def manifest():
  props = [json.loads(l)['id'] for l in open(os.path.join(ROOT, 'properties.jsonl'))]
  checks = []
  for pid in props:
    if pid not in CHECKS:
      continue
    c = CHECKS[pid]
    checks.append({
        'property_id': pid,
        'quick_cmd': f'./check {pid} --tier quick',
        'thorough_cmd': f'./check {pid} --tier thorough',
        'evidence_file': f'/verif/evidence/{pid}.json',
        'replay_cmd_template': f'./check {pid} --replay {{path}}',
        'engine': c['engine'],
        'level_claimed': {'category': 'exploration', 'text': c['text'], 'design_ref': c['design_ref']},
        'level_note': c['note'],
        'technique': c['technique'],
    })
  na = [{'property_id': pid, 'reason': PENDING.get(pid, 'check not built yet in this session (planned with the same technique, see DESIGN.md section 4); not claimed until it is')}
        for pid in props if pid not in CHECKS]
  return {
      'version': 1,
      'setup_cmd': '/venv/bin/pip install --no-index --find-links /opt/veriftools/wheels hypothesis >/dev/null 2>&1; /venv/bin/python -c "import hypothesis, jax, mujoco, brax"',
      'hooks': {
          'guard': 'GOOGLE_BRAX_VERIF',
          'enable': 'no source hooks: every property is observed through the public API; checks import brax from /repo (PYTHONPATH=/repo)',
          'baseline_off_cmd': 'cd /repo && /venv/bin/python -m pytest -ra -q -p no:cacheprovider --timeout=900 --continue-on-collection-errors',
          'source_commits': [],
          'add_only': True,
      },
      'engines': [
          {'name': 'hypothesis', 'path': '/verif/vf/harness.py', 'serves_properties': sorted(CHECKS),
           'kind_free_text': 'Hypothesis 6.168 @given / stateful generation with explicit oracles, 16 worker processes, seeded from VERIF_SEED; exhaustive enumeration for the small finite scopes'},
      ],
      'checks': checks,
      'not_applicable': na,
      'notes': 'All checks: ./check CXX --tier quick|thorough ; replay: ./check CXX --replay FILE ; known findings and repaired defects in known_findings.json (witnesses under known/ and regress/); repairs in /repo are the unguarded fix: commits 8f3a1ec ccff44f 7b2703a 953908c 0857566 f42c5c9 89cde28 14e32ff (pinned suite 271/271 with all of them); no source hooks; seeded breaking changes from sub-agents under seeded/; see DESIGN.md, in particular section 9.',
  }


if __name__ == '__main__':
  m = manifest()
  with open(os.path.join(ROOT, 'MANIFEST.json'), 'w') as f:
    json.dump(m, f, indent=1)
    f.write('\n')
  print('claimed:', [c['property_id'] for c in m['checks']])
