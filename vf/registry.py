"""Per-property registration data for MANIFEST.json (python -m vf.registry writes it)."""
import json
import os

ROOT = os.path.dirname(os.path.dirname(os.path.abspath(__file__)))

CHECKS = {}


def reg(pid, technique, text, note, design_ref, engine='hypothesis'):
  CHECKS[pid] = dict(technique=technique, text=text, note=note, design_ref=design_ref, engine=engine)


reg('C09',
    'property-based testing (Hypothesis): exact algebraic identities on an integer lattice + float64 identities at 1e-12',
    'No counter-example to ~55 polynomial identities of quat/transform/motion/force/inertia algebra on thousands of '
    'random lattice points in [-9,9]^84 evaluated exactly (Schwartz-Zippel: a false identity of degree d survives one '
    'point with probability <= d/19), plus ~30 float identities (matrix form, Rodrigues, Euler, from_to, orthogonals, '
    'inv_3x3, com moves) on unit quaternions at 1e-12. Sampling, not proof.',
    'float64 integer arithmetic below 2^53 is exact; JAX CPU backend evaluates the same expressions users run',
    'DESIGN.md section 4 C09')

PENDING = {}


def manifest():
  props = [json.loads(l)['id'] for l in open(os.path.join(ROOT, 'properties.jsonl'))]
  checks = []
  for pid in props:
    if pid not in CHECKS:
      continue
    c = CHECKS[pid]
    checks.append({
        'property_id': pid,
        'quick_cmd': f'./check {pid} --tier quick',
        'thorough_cmd': f'./check {pid} --tier thorough',
        'evidence_file': f'/verif/evidence/{pid}.json',
        'replay_cmd_template': f'./check {pid} --replay {{path}}',
        'engine': c['engine'],
        'level_claimed': {'category': 'exploration', 'text': c['text'], 'design_ref': c['design_ref']},
        'level_note': c['note'],
        'technique': c['technique'],
    })
  na = [{'property_id': pid, 'reason': PENDING.get(pid, 'check not built yet in this session (planned with the same technique, see DESIGN.md section 4); not claimed until it is')}
        for pid in props if pid not in CHECKS]
  return {
      'version': 1,
      'setup_cmd': '/venv/bin/pip install --no-index --find-links /opt/veriftools/wheels hypothesis >/dev/null 2>&1; /venv/bin/python -c "import hypothesis, jax, mujoco, brax"',
      'hooks': {
          'guard': 'GOOGLE_BRAX_VERIF',
          'enable': 'no source hooks: every property is observed through the public API; checks import brax from /repo (PYTHONPATH=/repo)',
          'baseline_off_cmd': 'cd /repo && /venv/bin/python -m pytest -ra -q -p no:cacheprovider --timeout=900 --continue-on-collection-errors',
          'source_commits': [],
          'add_only': True,
      },
      'engines': [
          {'name': 'hypothesis', 'path': '/verif/vf/harness.py', 'serves_properties': sorted(CHECKS),
           'kind_free_text': 'Hypothesis 6.168 @given / stateful generation with explicit oracles, 16 worker processes, seeded from VERIF_SEED; exhaustive enumeration for the small finite scopes'},
      ],
      'checks': checks,
      'not_applicable': na,
      'notes': 'All checks: ./check CXX --tier quick|thorough ; replay: ./check CXX --replay FILE ; known findings in known_findings.json; see DESIGN.md.',
  }


if __name__ == '__main__':
  m = manifest()
  with open(os.path.join(ROOT, 'MANIFEST.json'), 'w') as f:
    json.dump(m, f, indent=1)
    f.write('\n')
  print('claimed:', [c['property_id'] for c in m['checks']])
