"""C03 - gradients through a few physics steps are finite, and equal finite differences where the step is smooth."""

import numpy as np
from hypothesis import strategies as st

from vf import modelgen, phys
from vf.harness import Violation, fingerprint

PROPERTY = 'C03'
X64 = True
SHRINK = {'quick': 3, 'thorough': 20}
RULE = (
    'generator models with orthogonal stacks (every mix of hinge/slide, 1-4 links, bounded actuator gains, wide limits, no contacts) x '
    'state kind in {generic, qd = 0, q = 0, axis-aligned root rotation, q = 0 and qd = 0 and ctrl = 0} x three pipelines x n in {1,2,5} '
    'unrolled steps; the loss is a drawn O(1) weighting of the final x.pos, xd.vel, q, qd; differentiated with respect to joint '
    'coordinates, velocities, controls and, for free roots, a 3-vector tangent rotation (unit quaternions are the domain). Oracle 1 '
    '(every case, float64 and float32): every gradient component is finite. Oracle 2 (generic states, float64): for every input '
    'coordinate whose central differences at h = 1e-4, 1e-5, 1e-6 agree to 1e-4 (locally smooth), AD equals the h = 1e-5 estimate to 1e-5 '
    'of the gradient scale. contact family: a free sphere/capsule resting on, above or inside the plane at rest with zero control '
    '(finiteness only). Non-trivial: a non-root joint and >= 80 % of the directions smooth (oracle 2) / a singular state (oracle 1). '
    'Distinct: hash of the case.')
ASSUMPTIONS = ['root rotations are perturbed on the unit sphere (tangent vector), never in raw quaternion components',
               'directions in which the three finite-difference estimates disagree are labelled non_smooth_skipped (a switch lies within h) and not compared',
               'runs with max|qd| > 1e3 are counted diverged_not_compared for oracle 2; oracle 1 still applies while the primal is finite']
TOLERANCES = {'fd_agreement_for_smoothness': 1e-4, 'ad_vs_fd': 1e-5}
KINDS = ['generic', 'generic', 'generic', 'generic', 'zero_qd', 'zero_q', 'axis_aligned_root', 'all_zero']


def prof(max_bodies=4):
  return modelgen.profile(axes='orthogonal', limits='wide', actuators='bounded', max_bodies=max_bodies, gravity='any')


@st.composite
def cases(draw, x64=True, quick=False):
  c = draw(modelgen.model_and_states(prof(3 if quick else 4), k=1, q_range=(-1.0, 1.0), qd_range=(-1.0, 1.0), ctrl_range=(-1.0, 1.0),
                                     cls_list=['stack', 'actuated', 'free_root', 'slide_on_rotated', 'actuated', 'anchor']))
  c['kind'] = draw(st.sampled_from(KINDS)) if x64 else draw(st.sampled_from(KINDS[4:] + ['generic']))
  c['nsteps'] = draw(st.sampled_from([1, 2] if quick else [1, 2, 5]))
  c['pipelines'] = list(phys.PIPELINES) if (c['kind'] == 'generic' or draw(st.integers(0, 2 if quick else 1)) == 0) else ['generalized', 'spring']
  c['weights'] = draw(st.lists(modelgen.fl(-1.0, 1.0), min_size=16, max_size=16))
  c['family'] = 'smooth'
  c['x64'] = x64
  return c


def make_loss(m, sys, spec, pname, nsteps, wts, q0, dtype):
  jax, jp = m['jax'], m['jp']
  pm = m[pname]
  s = modelgen.structure(spec)
  nb = len(spec['bodies'])
  w = np.resize(np.array(wts, dtype), 4 * 3 + 4)
  # layout of z: per body tangent coordinates, then qd, then ctrl
  segs = []
  n_t = 0
  for bi, b in enumerate(spec['bodies']):
    n = 6 if b['free'] else len(b['joints'])
    segs.append((bi, n_t, n))
    n_t += n
  nz = n_t + s['nv'] + s['nu']
  q0 = jp.array(q0, dtype)

  def build_q(zt):
    parts = []
    for bi, a, n in segs:
      b = spec['bodies'][bi]
      qa = s['q_adr'][bi]
      if b['free']:
        pos = q0[qa:qa + 3] + zt[a:a + 3]
        d = zt[a + 3:a + 6]
        dq = jp.concatenate([jp.ones(1, dtype), 0.5 * d])
        dq = dq / jp.sqrt(jp.sum(dq * dq))
        rot = m['math'].quat_mul(q0[qa + 3:qa + 7], dq)
        parts += [pos, rot]
      else:
        parts.append(q0[qa:qa + n] + zt[a:a + n])
    return jp.concatenate(parts) if parts else jp.zeros(0, dtype)

  def loss(z, qd0, c0):
    q = build_q(z[:n_t])
    qd = qd0 + z[n_t:n_t + s['nv']]
    c = c0 + z[n_t + s['nv']:]
    st_ = pm.init(sys, q, qd)
    # lax.scan instead of a Python loop: the step is traced (and differentiated) once, whatever the step count
    st_ = jax.lax.scan(lambda s__, _: (pm.step(sys, s__, c), None), st_, None, length=nsteps)[0]
    wl = jp.array(w, dtype)
    val = jp.sum(st_.x.pos * wl[0:3]) + jp.sum(st_.xd.vel * wl[3:6]) + jp.sum(st_.xd.ang * wl[6:9])
    val = val + wl[12] * jp.sum(st_.q * jp.cos(jp.arange(st_.q.shape[0]))) + wl[13] * jp.sum(st_.qd * jp.sin(1.0 + jp.arange(st_.qd.shape[0])))
    return val, jp.max(jp.abs(st_.qd)) if st_.qd.size else jp.zeros((), dtype)
  return loss, nz, n_t


def state_of(c, spec):
  s = modelgen.structure(spec)
  q, qd, ctrl = phys.arr_states(c['states'])
  q, qd, ctrl = q[0].copy(), qd[0].copy(), ctrl[0].copy()
  kind = c['kind']
  if kind in ('zero_q', 'all_zero'):
    for bi, b in enumerate(spec['bodies']):
      a = s['q_adr'][bi]
      if b['free']:
        q[a + 3:a + 7] = [1.0, 0.0, 0.0, 0.0]
      else:
        q[a:a + len(b['joints'])] = 0.0
  if kind in ('zero_qd', 'all_zero'):
    qd[:] = 0.0
  if kind == 'all_zero':
    ctrl[:] = 0.0
  if kind == 'generic':
    # generic = away from the coordinate singularities: Hypothesis likes exact zeros, which are the singular
    # configurations of stacked joints (covered by the zero_q / all_zero kinds with the finiteness oracle)
    for bi, b in enumerate(spec['bodies']):
      if not b['free']:
        a = s['q_adr'][bi]
        for ji in range(len(b['joints'])):
          if abs(q[a + ji]) < 1e-2:
            q[a + ji] = 0.05 * (1 + ji) * (1.0 if q[a + ji] >= 0 else -1.0)
  if kind == 'axis_aligned_root':
    for bi, b in enumerate(spec['bodies']):
      if b['free']:
        # alternate between a quarter turn about z and the axis-cycling rotation (z -> x), an Euler gimbal orientation
        q[s['q_adr'][bi] + 3:s['q_adr'][bi] + 7] = [np.sqrt(0.5), 0.0, 0.0, np.sqrt(0.5)] if (bi + c['nsteps']) % 2 else [0.5, 0.5, 0.5, 0.5]
  return q, qd, ctrl


def check(c, ctx=None):
  m = phys.mods()
  jax, jp = m['jax'], m['jp']
  x64 = c.get('x64', True)
  jax.config.update('jax_enable_x64', bool(x64))
  try:
    return _check(c, ctx, m, jax, jp, np.float64 if x64 else np.float32)
  finally:
    jax.config.update('jax_enable_x64', True)


def _check(c, ctx, m, jax, jp, dtype):
  spec = c['spec']
  xml = modelgen.to_xml(spec)
  phys.load_mj(xml)
  sys = phys.load_brax(xml)
  phys.check_structure(sys, spec)
  q, qd, ctrl = state_of(c, spec)
  singular = c['kind'] not in ('generic', 'generic_raw')
  s_ = modelgen.structure(spec)
  stack_zero = any((not b['free']) and len(b['joints']) >= 2 and abs(q[s_['q_adr'][bi] + 1]) < 1e-3 for bi, b in enumerate(spec['bodies']))
  labels = ['kind:' + c['kind'], 'float64' if dtype == np.float64 else 'float32']
  smooth_frac = []
  worst = {}
  for pname in c.get('pipelines', phys.PIPELINES):
    loss, nz, n_t = make_loss(m, sys, spec, pname, c['nsteps'], c['weights'], q, dtype)
    z0 = jp.zeros(nz, dtype)
    (val, vmax), g = jax.jit(jax.value_and_grad(loss, has_aux=True))(z0, jp.array(qd, dtype), jp.array(ctrl, dtype))
    g = np.asarray(g)
    if not np.isfinite(float(val)):
      if ctx is not None:
        ctx.count('primal_not_finite_not_compared')
      continue
    if not np.all(np.isfinite(g)):
      bad = np.argwhere(~np.isfinite(g)).ravel().tolist()
      raise Violation('gradient_not_finite', f'{pname} ({"float64" if dtype == np.float64 else "float32"}, {c["kind"]} state, {c["nsteps"]} steps): gradient components {bad[:8]} '
                      f'of {nz} are not finite (inputs: {n_t} joint/tangent coordinates, then velocities, then controls)',
                      labels={'check': 'finite', 'pipeline': pname, 'kind': c['kind'], 'dtype': 'f64' if dtype == np.float64 else 'f32'})
    if singular or dtype != np.float64:
      continue
    if float(vmax) > 1e3:
      if ctx is not None:
        ctx.count('diverged_not_compared')
      continue
    hs = [1e-4, 1e-5, 1e-6]
    zs = []
    for h in hs:
      zs.append(np.eye(nz) * h)
      zs.append(-np.eye(nz) * h)
    zs = jp.array(np.concatenate(zs))
    vals = np.asarray(jax.jit(jax.vmap(lambda z_: loss(z_, jp.array(qd), jp.array(ctrl))[0]))(zs)).reshape(3, 2, nz)
    fd = (vals[:, 0] - vals[:, 1]) / (2 * np.array(hs)[:, None])
    scale = max(np.abs(fd[1]).max(), 1e-6)
    spread = np.max(np.abs(fd - fd[1][None]), axis=0)
    noise = 1e-9 * (1 + abs(float(val)))  # round-off of a central difference at h = 1e-6
    smooth = spread <= 1e-4 * (np.abs(fd[1]) + 1e-3 * scale) + noise
    smooth_frac.append(float(smooth.mean()))
    err = np.abs(g - fd[1])
    rel = err / scale
    worst[pname] = float(rel[smooth].max()) if smooth.any() else 0.0
    if ctx is not None:
      ctx.count('directions_smooth', int(smooth.sum()))
      ctx.count('directions_non_smooth_skipped', int((~smooth).sum()))
    bad = smooth & (err > 1e-5 * scale + 2 * spread + noise)
    if np.any(bad):
      k = int(np.argmax(np.where(bad, rel, 0)))
      what = 'joint/tangent coordinate' if k < n_t else ('velocity' if k < nz - len(ctrl) else 'control')
      raise Violation('gradient_wrong', f'{pname} ({c["nsteps"]} steps): d loss / d input[{k}] ({what}) = {g[k]!r} by autodiff but {fd[1][k]!r} by central differences '
                      f'(h=1e-4,1e-5,1e-6 agree: {fd[:, k].tolist()}); gradient scale {scale:.3e}',
                      labels={'check': 'ad_vs_fd', 'pipeline': pname, 'stack_angle_zero': bool(stack_zero)})
  if ctx is not None:
    for n_, v in worst.items():
      ctx.residual('ad_vs_fd_' + n_, v)
  has_joint = any(not b['free'] for b in spec['bodies'])
  nt = has_joint and ((singular) or (smooth_frac and min(smooth_frac) >= 0.8))
  return dict(fp=fingerprint(c), nontrivial=bool(nt), evals=3, labels=labels + modelgen.classes(spec),
              sample={'family': 'smooth', 'model': phys.model_summary(spec), 'state_kind': c['kind'], 'steps': c['nsteps'], 'dtype': str(np.dtype(dtype)),
                      'smooth_fraction_per_pipeline': smooth_frac, 'worst_ad_vs_fd': worst})


# -- contact family: finiteness only ---------------------------------------------------------------


@st.composite
def contact_cases(draw, x64=True):
  fl = modelgen.fl
  shape = draw(st.sampled_from(['sphere', 'capsule', 'sphere']))
  size = [draw(fl(0.05, 0.2))] + ([draw(fl(0.1, 0.3))] if shape == 'capsule' else [])
  return {'family': 'contact', 'shape': shape, 'size': size, 'height': draw(st.sampled_from([0.0, 0.0, -0.005, 0.01, 0.3])),
          'quat': draw(st.sampled_from([[1.0, 0.0, 0.0, 0.0], [np.sqrt(0.5), 0.0, np.sqrt(0.5), 0.0]])),
          'rest': draw(st.sampled_from([True, True, False])), 'nsteps': draw(st.sampled_from([1, 2])), 'x64': x64,
          'pipelines': draw(st.sampled_from([['spring', 'positional'], ['spring', 'positional'], ['generalized', 'spring', 'positional']]))}


def check_contact(c, ctx=None):
  m = phys.mods()
  jax, jp = m['jax'], m['jp']
  x64 = c.get('x64', True)
  jax.config.update('jax_enable_x64', bool(x64))
  try:
    dtype = np.float64 if x64 else np.float32
    xml = (f'<mujoco><compiler angle="radian"/><option timestep="0.002"/><custom><numeric name="matrix_inv_iterations" data="0"/></custom>'
           f'<worldbody><geom name="floor" type="plane" size="10 10 1"/><body name="a"><freejoint/>'
           f'<geom type="{c["shape"]}" size="{" ".join(repr(float(x)) for x in c["size"])}"/></body></worldbody></mujoco>')
    phys.load_mj(xml)
    sys = phys.load_brax(xml)
    low = c['size'][0] if (c['shape'] == 'sphere' or c['quat'][0] != 1.0) else c['size'][0] + c['size'][1]
    q0 = np.array([0.0, 0.0, low + c['height']] + list(c['quat']))
    qd0 = np.zeros(6) if c['rest'] else np.array([0.3, 0.0, -0.5, 0.0, 0.2, 0.0])
    for pname in c['pipelines']:
      pm = m[pname]
      def loss(z):
        q = jp.concatenate([jp.array(q0[:3], dtype) + z[:3], jp.array(q0[3:], dtype)])
        s = pm.init(sys, q, jp.array(qd0, dtype) + z[3:9])
        s = jax.lax.scan(lambda s__, _: (pm.step(sys, s__, jp.zeros(0, dtype)), None), s, None, length=c['nsteps'])[0]
        return jp.sum(s.x.pos) + jp.sum(s.xd.vel) + 0.5 * jp.sum(s.xd.ang)
      val, g = jax.jit(jax.value_and_grad(loss))(jp.zeros(9, dtype))
      if np.isfinite(float(val)) and not np.all(np.isfinite(np.asarray(g))):
        raise Violation('gradient_not_finite', f'{pname} ({"float64" if x64 else "float32"}): {c["shape"]} {"at rest" if c["rest"] else "moving"} '
                        f'{c["height"] * 1000:.0f} mm above the ground, {c["nsteps"]} steps: gradient {np.asarray(g).tolist()} is not finite',
                        labels={'check': 'finite', 'pipeline': pname, 'kind': 'contact', 'dtype': 'f64' if x64 else 'f32'})
  finally:
    jax.config.update('jax_enable_x64', True)
  return dict(fp=fingerprint(c), nontrivial=bool(c['rest']), evals=len(c['pipelines']),
              labels=['contact', 'float64' if x64 else 'float32', 'at_rest' if c['rest'] else 'moving'],
              sample={'family': 'contact', **{k: c[k] for k in ('shape', 'size', 'height', 'rest', 'nsteps', 'pipelines')}, 'dtype': 'float64' if x64 else 'float32'})


def tasks(tier, seed):
  q = tier == 'quick'
  out = []
  for _ in range(8):
    out.append({'kind': 'smooth', 'x64': True, 'quick': q, 'n': 2 if q else 15})
  for _ in range(4):
    out.append({'kind': 'smooth32', 'x64': True, 'quick': q, 'n': 3 if q else 15})
  for _ in range(4):
    out.append({'kind': 'contact', 'x64': True, 'n': 2 if q else 15})
  return out


def run_task(task, ctx):
  def guard(fn):
    def body(c):
      try:
        return fn(c, ctx)
      except phys.GeneratorReject:
        ctx.count('generator_rejects')
        return None
    return body
  if task['kind'] == 'smooth':
    ctx.run_given(cases(True, task.get('quick', False)), guard(check), task['n'], task['seed'], check='smooth', skip_simplest=True)
  elif task['kind'] == 'smooth32':
    ctx.run_given(cases(False, task.get('quick', False)), guard(check), task['n'], task['seed'], check='smooth', skip_simplest=True)
  else:
    half = st.booleans().flatmap(lambda b: contact_cases(b))
    ctx.run_given(half, guard(check_contact), task['n'], task['seed'], check='contact', skip_simplest=True)


def replay(case, check_name=None):
  if case.get('family') == 'contact':
    check_contact(case)
  else:
    check(case)
