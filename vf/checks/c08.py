"""C08 - joint coordinates <-> world coordinates round trip; spring/positional report consistent coordinates."""

import numpy as np

from vf import modelgen, phys
from vf.harness import Violation, derive_seed, fingerprint

PROPERTY = 'C08'
X64 = True
SHRINK = {'quick': 10, 'thorough': 60}
RULE = (
    'generator models whose stacked axes are mutually orthogonal (either handedness) and whose stacks are of one joint kind or '
    'slides followed by one hinge (class = first draw; forest-shape sweep in addition) x K states with joint coordinates in '
    '[-1.2,1.2], unit root quaternions, qd in [-1,1]. Oracle A: inverse(world_to_joint(forward(q, qd))) == (q, qd) at 1e-9 '
    '(root quaternion up to sign; velocities asserted for free links and single hinges, measured for the rest). Oracle B: after '
    'init + 1-3 spring/positional steps the reported q, qd, j, jd, a_p, a_c are the images of the reported x, xd (1e-12). '
    'Non-trivial: a stack of >= 2 or a left-handed frame or a non-zero anchor, and q not all zero. Distinct: hash of '
    '(topology, rounded q, qd).')
ASSUMPTIONS = ['joint coordinates inside the Euler chart (|q| <= 1.2)',
               'velocity round trip of prismatic and stacked joints is the documented upstream limitation (known finding C08/roundtrip-unsupported), '
               'measured but not asserted']
TOLERANCES = {'q_roundtrip': 1e-9, 'q_roundtrip(stacks, arccos conditioning sqrt(eps))': 1e-7, 'qd_roundtrip(free, single hinge)': 1e-9, 'pipeline_consistency': 1e-12}
FLOORS = {'stack>=2': 0.3, 'left_handed': 0.1, 'slide_then_hinge': 0.1, 'anchor': 0.15}
PROFILE = modelgen.profile(axes='orthogonal', stacks='supported', limits='wide', actuators='motor')


def floors(labels, programs, tier):
  return phys.floors_report(labels, programs, FLOORS)


def extra_labels(spec):
  out = []
  for b in spec['bodies']:
    js = b['joints']
    if len(js) == 3:
      ax = np.array([j['axis'] for j in js])
      if np.dot(np.cross(ax[0], ax[1]), ax[2]) < 0:
        out.append('left_handed')
    if len(js) >= 2 and js[-1]['type'] == 'hinge' and js[0]['type'] == 'slide':
      out.append('slide_then_hinge')
  return sorted(set(out))


def check(case, ctx=None):
  m = phys.mods()
  jax, jp = m['jax'], m['jp']
  kin = m['kinematics']
  spec, states = case['spec'], case['states']
  xml = modelgen.to_xml(spec)
  phys.load_mj(xml)
  sys = phys.load_brax(xml)
  s = phys.check_structure(sys, spec)
  q, qd, ctrl = phys.arr_states(states)
  k = q.shape[0]

  def rt(q_, qd_):
    x, xd = kin.forward(sys, q_, qd_)
    j, jd, _, _ = kin.world_to_joint(sys, x, xd)
    return kin.inverse(sys, j, jd)

  q2, qd2 = jax.jit(jax.vmap(rt))(jp.array(q), jp.array(qd))
  q2, qd2 = np.asarray(q2), np.asarray(qd2)
  if q2.shape != q.shape or qd2.shape != qd.shape:
    raise Violation('shape', f'inverse returned shapes {q2.shape} {qd2.shape}')
  worst = {'q': 0.0, 'qd_claimed': 0.0, 'qd_unclaimed': 0.0}
  known = None
  for i in range(k):
    for bi, b in enumerate(spec['bodies']):
      qa, da = s['q_adr'][bi], s['qd_adr'][bi]
      if b['free']:
        ep = np.abs(q2[i][qa:qa + 3] - q[i][qa:qa + 3]).max()
        er = phys.quat_diff(q2[i][qa + 3:qa + 7], q[i][qa + 3:qa + 7])
        e = max(ep, float(er))
        ev = np.abs(qd2[i][da:da + 6] - qd[i][da:da + 6]).max()
        claimed_v = True
        nj = 6
      else:
        nj = len(b['joints'])
        e = np.abs(q2[i][qa:qa + nj] - q[i][qa:qa + nj]).max()
        ev = np.abs(qd2[i][da:da + nj] - qd[i][da:da + nj]).max()
        claimed_v = nj == 1 and b['joints'][0]['type'] == 'hinge'
      # stacked hinges recover the middle Euler angle through arccos, whose conditioning at 0 is sqrt(eps) = 1.5e-8
      qtol = 1e-7 if (not b['free'] and nj >= 2) else 1e-9
      worst['q_stack' if qtol > 1e-9 else 'q'] = max(worst.get('q_stack' if qtol > 1e-9 else 'q', 0.0), e)
      if not e <= qtol:
        raise Violation('q_roundtrip', f'state {i} link {bi} ({"free" if b["free"] else "+".join(j["type"] for j in b["joints"])}): '
                        f'q {q[i][qa:qa + max(nj, 1) + (1 if b["free"] else 0)].tolist()} came back as {q2[i][qa:qa + max(nj, 1) + (1 if b["free"] else 0)].tolist()}',
                        labels={'check': 'q_roundtrip', 'stack': 'free' if b['free'] else ''.join(j['type'][0] for j in b['joints'])})
      if claimed_v:
        worst['qd_claimed'] = max(worst['qd_claimed'], ev)
        if not ev <= 1e-9:
          raise Violation('qd_roundtrip', f'state {i} link {bi}: qd {qd[i][da:da + nj].tolist()} came back as {qd2[i][da:da + nj].tolist()}',
                          labels={'check': 'qd_roundtrip', 'link_class': 'free_or_single_hinge'})
      else:
        worst['qd_unclaimed'] = max(worst['qd_unclaimed'], ev)
        if not ev <= 1e-9 and known is None:
          known = Violation('qd_roundtrip', f'state {i} link {bi} (prismatic/stacked): qd round trip off by {ev:.3e}',
                            labels={'check': 'qd_roundtrip', 'link_class': 'prismatic_or_stacked'})
  # oracle B: the pipelines report coordinates consistent with the poses they report
  if case.get('pipelines', True) and len(spec['bodies']) <= 4:
    nsteps = 1 + (len(spec['bodies']) % 3)
    for pname in ('spring', 'positional'):
      pm = m[pname]

      def run(q_, qd_, c_):
        st = pm.init(sys, q_, qd_)
        for _ in range(nsteps):
          st = pm.step(sys, st, c_)
        j, jd, a_p, a_c = kin.world_to_joint(sys, st.x, st.xd)
        qi, qdi = kin.inverse(sys, j, jd)
        def dev(a, b):
          return jp.max(jp.abs(a - b)) if a.size else jp.zeros(())
        return {'q': dev(st.q, qi), 'qd': dev(st.qd, qdi), 'j': jp.maximum(dev(st.j.pos, j.pos), dev(st.j.rot, j.rot)),
                'jd': jp.maximum(dev(st.jd.ang, jd.ang), dev(st.jd.vel, jd.vel)),
                'a_p': jp.maximum(dev(st.a_p.pos, a_p.pos), dev(st.a_p.rot, a_p.rot)),
                'a_c': jp.maximum(dev(st.a_c.pos, a_c.pos), dev(st.a_c.rot, a_c.rot)),
                'scale': 1.0 + jp.max(jp.abs(st.qd)) + jp.max(jp.abs(st.xd.vel))}
      dv = jax.jit(jax.vmap(run))(jp.array(q[:2]), jp.array(qd[:2]), jp.array(ctrl[:2]))
      dv = {kk: np.asarray(v) for kk, v in dv.items()}
      for kk in ('q', 'qd', 'j', 'jd', 'a_p', 'a_c'):
        r = dv[kk] / dv['scale']
        r = r[np.isfinite(dv['scale'])]
        if r.size == 0:
          continue
        worst['pipeline_' + kk] = max(worst.get('pipeline_' + kk, 0.0), float(np.nanmax(r)))
        if not np.all(r <= 1e-12):
          raise Violation('pipeline_consistency', f'{pname}: reported {kk} differs from the image of the reported x, xd by {float(np.nanmax(r)):.3e} '
                          f'after {nsteps} steps', labels={'check': 'pipeline_consistency', 'pipeline': pname, 'field': kk})
  if ctx is not None:
    for n, v in worst.items():
      if n != 'qd_unclaimed':
        ctx.residual(n, v)
  cls = modelgen.classes(spec) + extra_labels(spec)
  nt_model = any(c in cls for c in ('stack>=2', 'left_handed', 'anchor'))
  sig = modelgen.topology_signature(spec)
  fps = [(fingerprint([sig, q[i].tolist(), qd[i].tolist()]), bool(nt_model and np.any(q[i] != 0))) for i in range(k)]
  info = dict(fps=fps, labels=cls, sample={'model': phys.model_summary(spec), 'q0': q[0].tolist(), 'states': k, 'worst': worst})
  return info, known


def tasks(tier, seed):
  q = tier == 'quick'
  out = [{'kind': 'roundtrip', 'n': 6 if q else 100, 'k': 8 if q else 24} for _ in range(12)]
  # oracle B compiles spring and positional init + steps (10-40 s per model): fewer, smaller models
  out += [{'kind': 'roundtrip', 'pipelines': True, 'n': 2 if q else 25, 'k': 2} for _ in range(8)]
  shapes = modelgen.enumerate_forests(5 if q else 6)
  for c in range(16):
    out.append({'kind': 'topology', 'shapes': shapes[c::16], 'reps': 1 if q else 3, 'k': 4 if q else 8})
  return out


STATE_KW = dict(q_range=(-1.2, 1.2))


def run_task(task, ctx):
  def body(c):
    try:
      info, known = check(c, ctx)
    except phys.GeneratorReject:
      ctx.count('generator_rejects')
      return None
    if known is not None:
      ctx.record(**info)
      raise known
    return info
  if task['kind'] == 'topology':
    i = 0
    for shape in task['shapes']:
      for _ in range(task['reps']):
        i += 1
        strat = modelgen.model_and_states(PROFILE, k=task['k'], shape=shape, **STATE_KW).map(lambda c: dict(c, pipelines=False))
        if ctx.run_given(strat, body, 1, derive_seed(task['seed'], i), skip_simplest=True):
          return
  else:
    small = modelgen.profile(**dict(PROFILE, max_bodies=4))
    strat = modelgen.model_and_states(small if task.get('pipelines') else PROFILE, k=task['k'], **STATE_KW)
    strat = strat.map(lambda c: dict(c, pipelines=bool(task.get('pipelines'))))
    ctx.run_given(strat, body, task['n'], task['seed'])


def replay(case, check_name=None):
  _, known = check(case)
  if known is not None:
    raise known
