"""C10 - contact.get reports the closed-form geometry of sphere / capsule / plane pairs."""

import numpy as np
from hypothesis import strategies as st

from vf import modelgen, phys
from vf.harness import Violation, fingerprint

PROPERTY = 'C10'
X64 = True
SHRINK = {'quick': 15, 'thorough': 80}
RULE = (
    'scene = plane at any pose in the world body + 2-3 free bodies each carrying 1-2 sphere/capsule geoms (radius 0.05-0.2, '
    'half-length 0.05-0.3, local pos/quat, per-geom elasticity through a custom numeric or a custom tuple) x K link poses; the '
    'second body is placed along a drawn direction at a drawn target gap in [-0.3, 0.7] from the first, the third at random. '
    'Oracle: NumPy closed forms (point-plane, point-point, point-segment, segment-segment) for the signed distance, the normal '
    'from geom1 to geom2, the midpoint position, link attribution and mean elasticity of every reported row, and the set of '
    'reported pairs. One evaluation = one (scene, pose, contact row). Non-trivial row: its geoms have non-zero local offset and '
    'rotation and their links a non-identity rotation. Distinct: hash of (scene, pose, pair).')
ASSUMPTIONS = ['plane and sphere-sphere pairs: dist 1e-8, normal 1e-9, position 1e-8. Pairs with a capsule go through mjx closest-point routines that '
               'regularise their parameters (+1e-6 in the denominators); the tolerance is 1e-8 plus the displacement bound delta derived from those '
               'constants (dist: min(delta, delta^2/2d); normal: 2 delta/d; position: 2 delta), and the reported distance may never be smaller than '
               'the true minimum; normal/position are skipped when d < 1e-3 or 2 delta/d > 0.05 (near-parallel capsules)',
               'segment-segment closest points are not unique for parallel capsules: only the distance is compared there']
TOLERANCES = {'dist': 1e-8, 'normal(sphere/plane)': 1e-9, 'pos(sphere/plane)': 1e-8, 'capsule pairs': 'see assumptions',
              'elasticity': 1e-12}
FLOORS = {'row:penetrating': 0.15, 'row:separated': 0.3}


def floors(labels, programs, tier):
  rows = max(1, labels.get('rows', 0))
  out = {k: {'fraction': round(labels.get(k, 0) / rows, 3), 'floor': v} for k, v in FLOORS.items()}
  out['floors_met'] = all(o['fraction'] >= o['floor'] for o in out.values())
  return out


fl = modelgen.fl


@st.composite
def scenes(draw, k):
  nb = draw(st.sampled_from([2, 2, 3]))
  bodies = []
  gi = 1
  for _ in range(nb):
    gs = []
    for _ in range(draw(st.integers(1, 2))):
      typ = draw(st.sampled_from(['sphere', 'capsule']))
      gs.append({'type': typ, 'r': draw(fl(0.05, 0.2)), 'hl': draw(fl(0.05, 0.3)),
                 'pos': draw(modelgen.vec3(-0.2, 0.2)), 'quat': draw(modelgen.unit_quat(identity_p=0.1)),
                 'elasticity': draw(st.one_of(fl(0.0, 1.0), st.sampled_from([0.0, 0.5, 1.0])))})
      gi += 1
    bodies.append(gs)
  plane = {'pos': draw(modelgen.vec3(-0.3, 0.3)), 'quat': draw(modelgen.unit_quat(identity_p=0.3)),
           'elasticity': draw(fl(0.0, 1.0))}
  poses = []
  for _ in range(k):
    p = []
    base = draw(modelgen.vec3(-0.4, 0.4))
    p.append({'pos': base, 'quat': draw(modelgen.unit_quat(identity_p=0.1))})
    d = draw(modelgen.unit_vec())
    gap = draw(st.one_of(fl(-0.3, 0.0), fl(0.0, 0.7), fl(-0.05, 0.05)))
    p.append({'dir': d, 'gap': gap, 'quat': draw(modelgen.unit_quat(identity_p=0.1))})
    for _ in range(nb - 2):
      p.append({'pos': draw(modelgen.vec3(-0.6, 0.6)), 'quat': draw(modelgen.unit_quat(identity_p=0.1))})
    poses.append(p)
  return {'bodies': bodies, 'plane': plane, 'poses': poses, 'elasticity_path': draw(st.sampled_from(['numeric', 'tuple', 'tuple_partial'])),
          # the geoms' local poses reach the System either through the document or through sys.replace(geom_pos=, geom_quat=)
          # on a System loaded from a document with other local poses (what domain randomisation of geometry does)
          'replace_local': draw(st.booleans())}


def fmt(v):
  return ' '.join(repr(float(x)) for x in v)


def scene_xml(sc):
  lines = ['<mujoco>', '  <compiler angle="radian"/>']
  ng = 1 + sum(len(b) for b in sc['bodies'])
  el = [sc['plane']['elasticity']] + [g['elasticity'] for b in sc['bodies'] for g in b]
  names = ['floor'] + [f'g{i}' for i in range(1, ng)]
  if sc['elasticity_path'] == 'numeric':
    lines.append(f'  <custom><numeric name="elasticity" data="{fmt(el)}"/></custom>')
    eff = el
  else:
    keep = list(range(ng)) if sc['elasticity_path'] == 'tuple' else [i for i in range(ng) if i % 2 == 1]
    if not keep:
      keep = [0]
    elems = ''.join(f'<element objtype="geom" objname="{names[i]}" prm="{el[i]!r}"/>' for i in keep)
    lines.append(f'  <custom><tuple name="elasticity">{elems}</tuple></custom>')
    eff = [el[i] if i in keep else 0.0 for i in range(ng)]
  lines.append('  <worldbody>')
  lines.append(f'    <geom name="floor" type="plane" size="10 10 1" pos="{fmt(sc["plane"]["pos"])}" quat="{fmt(sc["plane"]["quat"])}"/>')
  gi = 1
  for bi, b in enumerate(sc['bodies']):
    lines.append(f'    <body name="b{bi}"><freejoint/>')
    for g in b:
      lines.append(f'      <geom name="g{gi}" type="{g["type"]}" size="{g["r"]!r} {g["hl"]!r}" pos="{fmt(g["pos"])}" quat="{fmt(g["quat"])}"/>')
      gi += 1
    lines.append('    </body>')
  lines += ['  </worldbody>', '</mujoco>']
  return '\n'.join(lines), eff


def rot(v, q):
  return modelgen.quat_to_mat(q) @ np.asarray(v, float)


def pt_seg(p, a, b):
  d = b - a
  t = np.clip((p - a) @ d / (d @ d), 0, 1)
  return a + t * d


def seg_seg(p1, q1, p2, q2):
  """Closest points of two segments.  The minimum is attained either at the (unclamped) closest points of the two lines,
  if both lie inside their segments, or with an end point on one side: the smallest candidate is the exact minimum,
  also for nearly parallel segments where the closed-form parameters lose accuracy."""
  d1, d2, r = q1 - p1, q2 - p2, p1 - p2
  a, e, f = d1 @ d1, d2 @ d2, d2 @ r
  c, b = d1 @ r, d1 @ d2
  den = a * e - b * b
  parallel = den < 1e-9 * a * e
  cands = []
  if den > 1e-14 * a * e:
    s_ = (b * f - c * e) / den
    t_ = (b * s_ + f) / e
    if 0 <= s_ <= 1 and 0 <= t_ <= 1:
      cands.append((p1 + d1 * s_, p2 + d2 * t_))
  for pt in (p1, q1):
    cands.append((pt, pt_seg(pt, p2, q2)))
  for pt in (p2, q2):
    cands.append((pt_seg(pt, p1, q1), pt))
  c1, c2 = min(cands, key=lambda cc: np.linalg.norm(cc[1] - cc[0]))
  return c1, c2, parallel


def world_geoms(sc, link_pos, link_quat):
  out = []
  for bi, b in enumerate(sc['bodies']):
    for g in b:
      pos = link_pos[bi] + rot(g['pos'], link_quat[bi])
      q = modelgen.quat_mul(np.array(link_quat[bi]), np.array(g['quat']))
      ax = rot([0, 0, 1.0], q)
      out.append({'type': g['type'], 'r': g['r'], 'c': pos, 'a': pos - ax * g['hl'], 'b': pos + ax * g['hl'], 'body': bi,
                  'nt': bool(any(g['pos']) and g['quat'] != [1.0, 0.0, 0.0, 0.0] and list(link_quat[bi]) != [1.0, 0.0, 0.0, 0.0])})
  return out


def resolve_poses(sc, pose):
  """Link poses of one sample: body 1 is placed at a target gap from body 0 along a direction."""
  lp = [np.array(pose[0]['pos'], float)]
  lq = [pose[0]['quat']]
  g0, g1 = sc['bodies'][0][0], sc['bodies'][1][0]
  c0 = lp[0] + rot(g0['pos'], lq[0])
  want = c0 + np.array(pose[1]['dir']) * (g0['r'] + g1['r'] + pose[1]['gap'])
  lq.append(pose[1]['quat'])
  lp.append(want - rot(g1['pos'], lq[1]))
  for p in pose[2:]:
    lp.append(np.array(p['pos'], float))
    lq.append(p['quat'])
  return np.array(lp), np.array(lq)


def check(sc, ctx=None):
  m = phys.mods()
  jax, jp = m['jax'], m['jp']
  from brax.base import Transform
  if sc.get('replace_local'):
    import copy
    doc = copy.deepcopy(sc)
    for b in doc['bodies']:
      for g in b:
        g['pos'], g['quat'] = [-float(x) for x in g['pos']], [1.0, 0.0, 0.0, 0.0]
    xml, eff = scene_xml(doc)
    phys.load_mj(xml)
    sys = phys.load_brax(xml)
    gp = np.array([np.asarray(sys.geom_pos[0])] + [g['pos'] for b in sc['bodies'] for g in b], float)
    gq = np.array([np.asarray(sys.geom_quat[0])] + [g['quat'] for b in sc['bodies'] for g in b], float)
    sys = sys.replace(geom_pos=jp.array(gp), geom_quat=jp.array(gq))
  else:
    xml, eff = scene_xml(sc)
    phys.load_mj(xml)
    sys = phys.load_brax(xml)
  k = len(sc['poses'])
  lps, lqs = zip(*[resolve_poses(sc, p) for p in sc['poses']])
  lps, lqs = np.array(lps), np.array(lqs)
  f = jax.jit(jax.vmap(lambda p, q: m['contact'].get(sys, Transform(pos=p, rot=q))))
  c = f(jp.array(lps), jp.array(lqs))
  if c is None:
    raise Violation('no_contacts', 'contact.get returned None for a scene with candidate pairs')
  dist, frame, cpos = np.asarray(c.dist), np.asarray(c.frame), np.asarray(c.pos)
  g1s, g2s = np.asarray(c.geom1), np.asarray(c.geom2)
  li = (np.asarray(c.link_idx[0]), np.asarray(c.link_idx[1]))
  elas = np.asarray(c.elasticity)
  pq = np.array(sc['plane']['quat'], float)
  pn = rot([0, 0, 1.0], pq)
  ppos = np.array(sc['plane']['pos'], float)
  ngeom = 1 + sum(len(b) for b in sc['bodies'])
  fps, labels = [], []
  worst = {}
  def upd(n, v):
    worst[n] = max(worst.get(n, 0.0), float(v))
  for s in range(k):
    wg = world_geoms(sc, lps[s], lqs[s])
    expected_pairs = set()
    for i in range(len(wg)):
      expected_pairs.add((0, i + 1))
      for j in range(i + 1, len(wg)):
        if wg[i]['body'] != wg[j]['body']:
          expected_pairs.add((i + 1, j + 1))
    rows = {}
    for r in range(dist.shape[1]):
      rows.setdefault((int(g1s[s, r]), int(g2s[s, r])), []).append(r)
    got_pairs = {tuple(sorted(p)) for p in rows}
    if got_pairs != expected_pairs:
      raise Violation('pairs', f'pose {s}: reported geom pairs {sorted(got_pairs)}, expected {sorted(expected_pairs)}',
                      labels={'check': 'pairs'})
    for (a, b), rr in rows.items():
      where = f'pose {s} pair (geom {a}, geom {b})'
      # expected: list of (dist, normal or None, pos or None), one per row
      cap = False
      if a == 0 or b == 0:
        if a != 0:
          raise Violation('order', f'{where}: plane reported as the second geom')
        g = wg[b - 1]
        pts = [g['c']] if g['type'] == 'sphere' else [g['a'], g['b']]
        exp = [((p - ppos) @ pn - g['r'], pn, p - pn * (g['r'] + 0.5 * ((p - ppos) @ pn - g['r']))) for p in pts]
        dtol, ntol, ptol = 1e-8, 1e-9, 1e-8
        cap = g['type'] == 'capsule'
        bodies = (-1, g['body'])
        nt = g['nt']
      else:
        ga, gb = wg[a - 1], wg[b - 1]
        par = False
        if ga['type'] == 'sphere' and gb['type'] == 'sphere':
          c1, c2 = ga['c'], gb['c']
        elif ga['type'] == 'sphere':
          c1, c2 = ga['c'], pt_seg(ga['c'], gb['a'], gb['b'])
        elif gb['type'] == 'sphere':
          c2, c1 = gb['c'], pt_seg(gb['c'], ga['a'], ga['b'])
        else:
          c1, c2, par = seg_seg(ga['a'], ga['b'], gb['a'], gb['b'])
        cap = 'capsule' in (ga['type'], gb['type'])
        dd = np.linalg.norm(c2 - c1)
        # mjx regularises its closest-point parameters: t = ./(|ab|^2 + 1e-6) for point-segment and ./(sin^2 + 1e-6) for
        # segment-segment.  delta bounds the resulting displacement of a closest point along its axis.
        delta = 0.0
        for g_ in (ga, gb):
          if g_['type'] == 'capsule':
            delta += 1e-6 / np.linalg.norm(g_['b'] - g_['a'])
        if ga['type'] == 'capsule' and gb['type'] == 'capsule':
          u, v = ga['b'] - ga['a'], gb['b'] - gb['a']
          sin2 = 1 - (u @ v) ** 2 / ((u @ u) * (v @ v))
          delta += 2e-6 * (np.linalg.norm(u) + np.linalg.norm(v) + np.linalg.norm(ga['c'] - gb['c'])) / (sin2 + 1e-6)
        delta *= 5.0  # safety factor on the bound
        d_exp = dd - ga['r'] - gb['r']
        dtol = 1e-8 + min(delta, delta * delta / (2 * dd + 1e-300))
        ok_dir = dd > 1e-3 and not par and 2 * delta / dd < 0.05
        n = (c2 - c1) / dd if ok_dir else None
        p_exp = c1 + n * (ga['r'] + 0.5 * d_exp) if n is not None else None
        exp = [(d_exp, n, p_exp)]
        ntol, ptol = 1e-9 + 2 * delta / max(dd, 1e-3), 1e-8 + 2 * delta
        bodies = (ga['body'], gb['body'])
        nt = ga['nt'] and gb['nt']
      if len(rr) != len(exp):
        raise Violation('rows', f'{where}: {len(rr)} contact rows, expected {len(exp)}')
      got = sorted(rr, key=lambda r: dist[s, r])
      exp = sorted(exp, key=lambda e: e[0])
      if len(exp) == 2 and abs(exp[0][0] - exp[1][0]) < 1e-6:
        # capsule parallel to the plane: both end spheres are equally far, match rows by position instead
        if np.abs(cpos[s, got[0]] - exp[0][2]).max() > np.abs(cpos[s, got[0]] - exp[1][2]).max():
          exp = exp[::-1]
      for r, (d_exp, n_exp, p_exp) in zip(got, exp):
        e = abs(dist[s, r] - d_exp)
        upd('dist_capsule' if cap and a != 0 else 'dist', e)
        if dist[s, r] < d_exp - 1e-8:
          raise Violation('dist', f'{where}: dist {dist[s, r]!r} is smaller than the true minimum distance {d_exp!r}',
                          labels={'check': 'dist', 'capsule': cap})
        if not e <= dtol:
          raise Violation('dist', f'{where}: dist {dist[s, r]!r}, closed form {d_exp!r}', labels={'check': 'dist', 'capsule': cap})
        if n_exp is not None:
          en = np.abs(frame[s, r, 0] - n_exp).max()
          upd('normal_capsule' if cap else 'normal', en)
          if not en <= ntol:
            raise Violation('normal', f'{where}: normal {frame[s, r, 0]} expected {n_exp} (from the first reported geom to the second)',
                            labels={'check': 'normal', 'capsule': cap})
          ep = np.abs(cpos[s, r] - p_exp).max()
          upd('pos_capsule' if cap else 'pos', ep)
          # the contact position is not part of the property; it is asserted where it is exact (plane/sphere pairs)
          if not cap and not ep <= ptol:
            raise Violation('pos', f'{where}: contact position {cpos[s, r]} expected midpoint {p_exp}', labels={'check': 'pos', 'capsule': cap})
        if (int(li[0][s, r]), int(li[1][s, r])) != bodies:
          raise Violation('link_idx', f'{where}: link_idx {(int(li[0][s, r]), int(li[1][s, r]))}, geoms belong to links {bodies}',
                          labels={'check': 'link_idx'})
        e_exp = 0.5 * (eff[a] + eff[b])
        if not abs(elas[s, r] - e_exp) <= 1e-12:
          raise Violation('elasticity', f'{where}: elasticity {elas[s, r]!r}, mean of the geoms\' values {e_exp!r}',
                          labels={'check': 'elasticity', 'path': sc['elasticity_path']})
        fps.append((fingerprint([sc['bodies'], sc['plane'], sc['poses'][s], a, b, r]), bool(nt)))
        labels.append('row:penetrating' if d_exp < 0 else 'row:separated')
        labels.append('rows')
        labels.append('pair:' + ('plane-' + wg[b - 1]['type'] if a == 0 else wg[a - 1]['type'] + '-' + wg[b - 1]['type']))
  if ctx is not None:
    for n, v in worst.items():
      ctx.residual(n, v)
  labels.append('elasticity:' + sc['elasticity_path'])
  labels.append('local_pose:via_sys_replace' if sc.get('replace_local') else 'local_pose:via_document')
  return dict(fps=fps, labels=labels,
              sample={'bodies': [[{kk: g[kk] for kk in ('type', 'r', 'hl')} for g in b] for b in sc['bodies']],
                      'plane': sc['plane'], 'pose0': {'pos': lps[0].tolist(), 'quat': lqs[0].tolist()},
                      'dists_pose0': np.round(dist[0], 4).tolist(), 'elasticity_path': sc['elasticity_path'], 'worst': worst})


def tasks(tier, seed):
  q = tier == 'quick'
  return [{'kind': 'contact', 'n': 6 if q else 100, 'k': 8 if q else 24} for _ in range(16)]


def run_task(task, ctx):
  def body(c):
    try:
      return check(c, ctx)
    except phys.GeneratorReject:
      ctx.count('generator_rejects')
      return None
  ctx.run_given(scenes(task['k']), body, task['n'], task['seed'])


def replay(case, check_name=None):
  check(case)
