"""C02 - generalized-pipeline dynamics terms and one contact/limit-free step equal MuJoCo."""

import numpy as np

from vf import modelgen, phys
from vf.harness import Violation, derive_seed, fingerprint

PROPERTY = 'C02'
X64 = True
SHRINK = {'quick': 10, 'thorough': 60}
RULE = (
    'generator models (forests of 1-6 links, any stacks incl. non-orthogonal axes, anchors, rotated bodies, damping, armature, '
    'stiffness, wide limits, motor/position/velocity actuators, arbitrary gravity; class = first draw; plus a sweep over all 196 '
    'forest shapes) x K states x ctrl in [-2,2]^nu, exact mass-matrix inverse. Reference: MuJoCo mj_forward/mj_fullM/mj_step '
    'on the same XML. One evaluation = one (model, state, ctrl). Non-trivial: nv >= 2 and (a stack, or a slide on a rotated '
    'body, or an actuator). Distinct: hash of (topology signature, rounded q, qd, ctrl).')
ASSUMPTIONS = [
    'MuJoCo Euler integrator with implicit joint damping (its default) is the reference step',
    'step compared only when no limited joint is within 1e-3 of its range before or after the reference step and the '
    'reference mass matrix has condition number < 1e8 (else counted, not compared)',
    'no colliding geoms in this profile',
]
TOLERANCES = {'mass_matrix_after_step': 1e-7, 'second_step': 1e-6, 'mass_matrix': 1e-8, 'bias': 1e-8, 'passive': 1e-8, 'actuator': 1e-8, 'smooth': 1e-8, 'step_q': 1e-7,
              'step_qd': 1e-7, 'symmetry': 1e-12}
FLOORS = {'free_root': 0.2, 'fixed_root': 0.2, 'slide_on_rotated': 0.2, 'stack>=2': 0.25, 'anchor': 0.15, 'actuated': 0.25}
PROFILE = modelgen.profile(limits='wide')


def floors(labels, programs, tier):
  return phys.floors_report(labels, programs, FLOORS)


def check(case, ctx=None):
  m = phys.mods()
  jax, jp, mujoco = m['jax'], m['jp'], m['mujoco']
  from brax.generalized import dynamics
  gp = m['generalized']
  spec, states = case['spec'], case['states']
  xml = modelgen.to_xml(spec)
  mjm = phys.load_mj(xml)
  sys = phys.load_brax(xml)
  s = phys.check_structure(sys, spec)
  q, qd, ctrl = phys.arr_states(states)
  k = q.shape[0]

  def f(q_, qd_, c_):
    st = gp.init(sys, q_, qd_)
    tau = m['actuator'].to_tau(sys, c_, st.q, st.qd)
    out = {'M': st.mass_mx, 'bias': dynamics.inverse(sys, st), 'passive': dynamics._passive(sys, st),  # pylint: disable=protected-access
           'tau': tau, 'smooth': dynamics.forward(sys, st, tau)}
    st1 = gp.step(sys, st, c_)
    out['q1'], out['qd1'], out['M1'] = st1.q, st1.qd, st1.mass_mx
    st2 = gp.step(sys, st1, c_)   # a second consecutive step, without re-initialising
    out['q2'], out['qd2'] = st2.q, st2.qd
    return out

  out = jax.jit(jax.vmap(f))(jp.array(q), jp.array(qd), jp.array(ctrl))
  out = {kk: np.asarray(v) for kk, v in out.items()}
  d = mujoco.MjData(mjm)
  nv = mjm.nv
  worst = {}
  counters = {'step_compared': 0, 'limit_reached_not_compared': 0, 'ill_conditioned_not_compared': 0}
  free_q = [(s['q_adr'][i] + 3) for i, b in enumerate(spec['bodies']) if b['free']]
  lim = [(s['joint_slots'][(bi, ji)][0], j['range']) for bi, b in enumerate(spec['bodies'])
         for ji, j in enumerate(b['joints']) if j.get('range') is not None]

  def upd(name, v):
    worst[name] = max(worst.get(name, 0.0), float(v))

  for i in range(k):
    phys.mj_set(mjm, d, q[i], qd[i], ctrl[i])
    mujoco.mj_forward(mjm, d)
    mm = np.zeros((nv, nv))
    mujoco.mj_fullM(mjm, d, mm)
    where = f'state {i}'
    def cmp(name, got, ref, tol):
      r = phys.rel(got, ref)
      upd(name, r)
      if not r <= tol:
        j = int(np.argmax(np.abs(np.asarray(got) - np.asarray(ref)).reshape(-1)))
        raise Violation(name, f'{where}: {name} differs from MuJoCo by rel {r:.3e} (entry {j}: '
                        f'{np.asarray(got).reshape(-1)[j]!r} vs {np.asarray(ref).reshape(-1)[j]!r})', labels={'check': name})
    cmp('mass_matrix', out['M'][i], mm, 1e-8)
    asym = np.abs(out['M'][i] - out['M'][i].T).max() / (1 + np.abs(mm).max())
    upd('symmetry', asym)
    if not asym <= 1e-12:
      raise Violation('symmetry', f'{where}: mass matrix not symmetric ({asym:.2e})')
    ev = np.linalg.eigvalsh(0.5 * (out['M'][i] + out['M'][i].T))
    if not ev.min() > 0:
      raise Violation('positive_definite', f'{where}: mass matrix min eigenvalue {ev.min():.3e}')
    cmp('bias', out['bias'][i], d.qfrc_bias, 1e-8)
    cmp('passive', out['passive'][i], d.qfrc_passive, 1e-8)
    cmp('actuator', out['tau'][i], d.qfrc_actuator, 1e-8)
    cmp('smooth', out['smooth'][i], d.qfrc_smooth, 1e-8)
    # one step
    cond = np.linalg.cond(mm)
    inside0 = all(r[0] + 1e-3 < q[i][a] < r[1] - 1e-3 for a, r in lim)
    mujoco.mj_step(mjm, d)
    inside1 = all(r[0] + 1e-3 < d.qpos[a] < r[1] - 1e-3 for a, r in lim)
    if not (inside0 and inside1):
      counters['limit_reached_not_compared'] += 1
      continue
    if not cond < 1e8 or not np.all(np.isfinite(d.qvel)):
      counters['ill_conditioned_not_compared'] += 1
      continue
    counters['step_compared'] += 1
    q1, qref = out['q1'][i].copy(), d.qpos.copy()
    for a in free_q:  # quaternion sign
      if np.dot(q1[a:a + 4], qref[a:a + 4]) < 0:
        q1[a:a + 4] *= -1
    scale = 1.0 + cond * 1e-8
    cmp('step_q', q1, qref, 1e-7 * scale)
    cmp('step_qd', out['qd1'][i], d.qvel, 1e-7 * scale)
    # the state carried to the next step: its mass matrix belongs to the new configuration, and a second step agrees too
    mujoco.mj_forward(mjm, d)
    mm1 = np.zeros((nv, nv))
    mujoco.mj_fullM(mjm, d, mm1)
    cmp('mass_matrix_after_step', out['M1'][i], mm1, 1e-7 * scale)
    mujoco.mj_step(mjm, d)
    inside2 = all(r[0] + 1e-3 < d.qpos[a] < r[1] - 1e-3 for a, r in lim)
    if inside2 and np.all(np.isfinite(d.qvel)) and np.abs(d.qvel).max() < 1e3:
      q2, qref2 = out['q2'][i].copy(), d.qpos.copy()
      for a in free_q:
        if np.dot(q2[a:a + 4], qref2[a:a + 4]) < 0:
          q2[a:a + 4] *= -1
      cmp('second_step_q', q2, qref2, 1e-6 * scale)
      cmp('second_step_qd', out['qd2'][i], d.qvel, 1e-6 * scale)
      counters['second_step_compared'] = counters.get('second_step_compared', 0) + 1
  if ctx is not None:
    for n, v in worst.items():
      ctx.residual(n, v)
    for n, v in counters.items():
      ctx.count(n, v)
  cls = modelgen.classes(spec)
  nt_model = nv >= 2 and any(c in cls for c in ('stack>=2', 'slide_on_rotated', 'actuated'))
  sig = modelgen.topology_signature(spec)
  fps = [(fingerprint([sig, q[i].tolist(), qd[i].tolist(), ctrl[i].tolist()]), bool(nt_model)) for i in range(k)]
  return dict(fps=fps, labels=cls, sample={'model': phys.model_summary(spec), 'q0': q[0].tolist(), 'qd0': qd[0].tolist(),
                                          'ctrl0': ctrl[0].tolist(), 'states': k, 'worst_residuals': worst, **counters})


def tasks(tier, seed):
  q = tier == 'quick'
  out = [{'kind': 'dyn', 'n': 4 if q else 100, 'k': 6 if q else 16} for _ in range(16)]
  # compile cost grows with the model (about 2-10 s per model): the quick tier sweeps all 64 forest shapes with <= 5
  # links, the thorough tier all 196 with <= 6 links four times
  shapes = modelgen.enumerate_forests(5 if q else 6)
  for c in range(16):
    out.append({'kind': 'topology', 'shapes': shapes[c::16], 'reps': 1 if q else 4, 'k': 3 if q else 8})
  return out


def run_task(task, ctx):
  def body(c):
    try:
      return check(c, ctx)
    except phys.GeneratorReject:
      ctx.count('generator_rejects')
      return None
  if task['kind'] == 'topology':
    i = 0
    for shape in task['shapes']:
      for _ in range(task['reps']):
        i += 1
        strat = modelgen.model_and_states(PROFILE, k=task['k'], shape=shape)
        if ctx.run_given(strat, body, 1, derive_seed(task['seed'], i), skip_simplest=True):
          return
  else:
    ctx.run_given(modelgen.model_and_states(PROFILE, k=task['k']), body, task['n'], task['seed'])


def replay(case, check_name=None):
  check(case)
