"""C06 - contacts and limits are inert until reached; contacts only push; resting height; rebound."""

import math

import numpy as np
from hypothesis import strategies as st

from vf import modelgen, phys
from vf.harness import Violation, fingerprint

PROPERTY = 'C06'
X64 = True
SHRINK = {'quick': 5, 'thorough': 30}
RULE = (
    'six generated families. hover: a single sphere/box/capsule 1.5-20 mm above the plane, with and without a declared contact margin larger than the clearance, vs collisions disabled. separated: collidable generator models + ground plane placed so that brax\'s own minimum contact '
    'distance is > 1e-3 before and after the step, twin = same document with contype=conaffinity=0: q, qd, x, xd equal (1e-9) and '
    'unit link rotations (1e-12), three pipelines. limits: generator models with ranges on some/all joints, q strictly inside every '
    'range before and after 1-2 steps in both twins, twin = ranges removed: equal at 1e-9. push: sphere/box/capsule of any '
    'orientation and density at rest 2-20 mm inside the plane (lowest point computed analytically), gravity on/off, one step: the '
    'centre never moves inward relative to free fall (all pipelines), normal velocity >= g dt (generalized, spring). resting: '
    'sphere / flat box / lying capsule, size 0.05-0.3, density 200-3000, dropped from 0-0.5 m, every step of a 3 s history: never '
    'more than 5 cm below the analytic rest height, ends within 5 mm of it with |v_z| <= 0.05. rebound: sphere r 0.05-0.3, '
    'elasticity 0-0.9 (and exactly 0), drop 0.2-1 m, dt 1 ms: v_out/v_in - e in [-0.02,0.02] (positional), [-0.02,0.2] (spring). '
    'Non-trivial: >= 2 collidable geoms nearer than 0.3 m (separated); >= 1 limited joint and nv >= 2 (limits); always (others). '
    'Distinct: hash of the case.')
ASSUMPTIONS = ['cases where a joint reaches its range during the step are counted limit_reached_not_compared; scenes that are not separated are counted not_separated_not_compared',
               'the positional pipeline\'s velocity after a position projection is not asserted (XPBD removes it by design); the centre position is. The lowest point is not asserted: a push at a corner legitimately rotates the body',
               'margins 5 cm / 5 mm / 0.05 m/s and the rebound margins are the property\'s',
               'resting and rebound scenes optionally contain a second free body resting 7 m away and listed first in the document (the body under test is then the second tree; the scene has collision candidates that never touch)']
TOLERANCES = {'twin_equality': 1e-9, 'unit_rotation': 1e-12, 'push': 1e-9, 'sink': 0.05, 'rest_height': 0.005, 'rest_speed': 0.05,
              'rebound_positional': [-0.02, 0.02], 'rebound_spring': [-0.02, 0.2]}
fl = modelgen.fl


def fmt(v):
  return ' '.join(repr(float(x)) for x in v)


def one_step_fn(m, pname, sys, nsteps):
  jax, jp = m['jax'], m['jp']
  pm = m[pname]
  def f(q, qd, c):
    s = pm.init(sys, q, qd)
    for _ in range(nsteps):
      s = pm.step(sys, s, c)
    return {'q': s.q, 'qd': s.qd, 'xp': s.x.pos, 'xr': s.x.rot, 'xdv': s.xd.vel, 'xda': s.xd.ang}
  return jax.jit(f)


def twin_compare(tag, pname, oa, ob, labels):
  worst = 0.0
  scale = 1.0 + max(np.abs(oa['xdv']).max(), np.abs(oa['qd']).max() if oa['qd'].size else 0.0)
  for k in ('q', 'qd', 'xp', 'xr', 'xdv', 'xda'):
    e = float(np.abs(oa[k] - ob[k]).max()) if oa[k].size else 0.0
    worst = max(worst, e / scale)
    if not e <= 1e-9 * scale:
      raise Violation(tag, f'{pname}: {k} differs by {e:.3e} between the model and its twin although nothing was reached', labels=labels)
  for name, o in (('model', oa), ('twin', ob)):
    n = float(np.abs(np.linalg.norm(o['xr'], axis=-1) - 1).max())
    if not n <= 1e-12:
      raise Violation('unit_rotation', f'{pname}: link rotation of the {name} is off the unit sphere by {n:.3e}',
                      labels={'check': 'unit_rotation', 'pipeline': pname})
  return worst


# -- 1. separated -----------------------------------------------------------------


@st.composite
def separated_cases(draw):
  p = modelgen.profile(root='free', collide=True, plane=True, limits='none', max_bodies=3, gravity='down', anchors=True,
                       actuators=draw(st.sampled_from(['none', 'any'])))
  spec = draw(modelgen.model_spec(p, draw(st.sampled_from(['free_root', 'stack', 'plain']))))
  stt = draw(modelgen.states(spec, 1, q_range=(-0.3, 0.3), root_pos=(-0.5, 0.5)))
  zs = [draw(fl(0.8, 2.5)) for _ in spec['bodies']]
  return {'family': 'separated', 'spec': spec, 'states': stt, 'zs': zs, 'nsteps': draw(st.sampled_from([1, 2]))}


def check_separated(c, ctx=None):
  m = phys.mods()
  jp = m['jp']
  spec = c['spec']
  xa, xb = modelgen.to_xml(spec), modelgen.to_xml(spec, no_collide=True)
  phys.load_mj(xa)
  sysa, sysb = phys.load_brax(xa), phys.load_brax(xb)
  s = phys.check_structure(sysa, spec)
  q, qd, ctrl = phys.arr_states(c['states'])
  q0 = q[0].copy()
  zoff = 0.0
  for bi, b in enumerate(spec['bodies']):
    if b['free']:
      zoff += c['zs'][bi]
      q0[s['q_adr'][bi] + 2] = zoff  # stagger the trees vertically
  kin, con = m['kinematics'], m['contact']
  def mind(qv):
    x, _ = kin.forward(sysa, jp.array(qv), jp.zeros(s['nv']))
    ct = con.get(sysa, x)
    return float('inf') if ct is None else float(jp.min(ct.dist))
  d0 = mind(q0)
  worst = {}
  compared = False
  if d0 > 1e-3:
    for pname in phys.PIPELINES:
      oa = {k: np.asarray(v) for k, v in one_step_fn(m, pname, sysa, c['nsteps'])(jp.array(q0), jp.array(qd[0]), jp.array(ctrl[0])).items()}
      ob = {k: np.asarray(v) for k, v in one_step_fn(m, pname, sysb, c['nsteps'])(jp.array(q0), jp.array(qd[0]), jp.array(ctrl[0])).items()}
      if not all(np.all(np.isfinite(v)) for v in oa.values()):
        if ctx is not None:
          ctx.count('diverged_not_compared')
        continue
      d1 = mind(oa['q'])
      if not d1 > 1e-3:
        if ctx is not None:
          ctx.count('not_separated_not_compared')
        continue
      compared = True
      worst[pname] = twin_compare('separated', pname, oa, ob, {'check': 'separated', 'pipeline': pname})
  elif ctx is not None:
    ctx.count('not_separated_not_compared')
  if ctx is not None:
    for n_, v in worst.items():
      ctx.residual('separated_' + n_, v)
  ngeom = sum(len(b['geoms']) for b in spec['bodies'])
  return dict(fp=fingerprint(c), nontrivial=bool(compared and ngeom >= 2 and d0 < 0.3), evals=3 if compared else 0,
              labels=['separated' if compared else 'separated:skipped'],
              sample={'family': 'separated', 'model': phys.model_summary(spec), 'min_contact_distance': d0, 'compared': compared, 'worst': worst})


# -- 2. limits ----------------------------------------------------------------------


@st.composite
def limit_cases(draw):
  p = modelgen.profile(limits=draw(st.sampled_from(['some', 'all'])), actuators='bounded', max_bodies=4, gravity='any')
  spec = draw(modelgen.model_spec(p, draw(st.sampled_from(['stack', 'fixed_root', 'free_root', 'anchor', 'actuated', 'fixed_then_free',
                                                          'slide_on_rotated', 'slide_on_rotated', 'single']))))
  # single slides / hinges with a range that does not contain 0 (a lift, a pre-bent knee)
  for b in spec['bodies']:
    if len(b['joints']) == 1 and draw(st.booleans()):
      lo = draw(fl(0.1, 0.5))
      hi = lo + draw(fl(0.3, 0.8))
      b['joints'][0]['range'] = [lo, hi] if draw(st.booleans()) else [-hi, -lo]
  stt = draw(modelgen.states(spec, 1, q_range=(-1.0, 1.0), qd_range=(-0.5, 0.5), ctrl_range=(-1.0, 1.0), inside_limits=True))
  return {'family': 'limits', 'spec': spec, 'states': stt, 'nsteps': draw(st.sampled_from([1, 2]))}


def check_limits(c, ctx=None):
  m = phys.mods()
  jp = m['jp']
  spec = c['spec']
  xa, xb = modelgen.to_xml(spec), modelgen.to_xml(spec, strip_limits=True)
  phys.load_mj(xa)
  sysa, sysb = phys.load_brax(xa), phys.load_brax(xb)
  s = phys.check_structure(sysa, spec)
  q, qd, ctrl = phys.arr_states(c['states'])
  lim = [(s['joint_slots'][(bi, ji)][0], j['range']) for bi, b in enumerate(spec['bodies']) for ji, j in enumerate(b['joints'])
         if j.get('range') is not None]
  def inside(qv):
    return all(r[0] + 1e-3 * (r[1] - r[0]) < qv[a] < r[1] - 1e-3 * (r[1] - r[0]) for a, r in lim)
  worst = {}
  compared = 0
  for pname in phys.PIPELINES:
    ok = inside(q[0])
    outs = []
    for sy in (sysa, sysb):
      o_prev = None
      for n in range(1, c['nsteps'] + 1):
        o = {k: np.asarray(v) for k, v in one_step_fn(m, pname, sy, n)(jp.array(q[0]), jp.array(qd[0]), jp.array(ctrl[0])).items()}
        if not (np.all(np.isfinite(o['q'])) and inside(o['q'])):
          ok = False
      outs.append(o)
    if not ok:
      if ctx is not None:
        ctx.count('limit_reached_not_compared')
      continue
    compared += 1
    worst[pname] = twin_compare('limits', pname, outs[0], outs[1], {'check': 'limits', 'pipeline': pname})
  if ctx is not None:
    for n_, v in worst.items():
      ctx.residual('limits_' + n_, v)
  return dict(fp=fingerprint(c), nontrivial=bool(compared and lim and s['nv'] >= 2), evals=compared,
              labels=['limits' if compared else 'limits:skipped'] + (['all_joints_limited'] if len(lim) == s['nv'] - 6 * sum(b['free'] for b in spec['bodies']) else []),
              sample={'family': 'limits', 'model': phys.model_summary(spec), 'limited_joints': len(lim), 'steps': c['nsteps'], 'pipelines_compared': compared, 'worst': worst})


# -- 3-5. single body on the plane -------------------------------------------------------


def body_xml(shape, size, density, gravity, dt, elasticity=0.0, bystander=None):
  """bystander: optional (shape, size) of a second free body listed FIRST in the document, i.e. the body under test is
  then the second kinematic tree and the scene has collision candidates that never touch."""
  other = ''
  if bystander is not None:
    other = f'<body name="other"><freejoint/><geom type="{bystander[0]}" size="{fmt(bystander[1])}" density="1000.0"/></body>'
  return (f'<mujoco><compiler angle="radian"/><option timestep="{dt!r}" gravity="0 0 {gravity!r}"/>'
          f'<custom><numeric name="matrix_inv_iterations" data="0"/><numeric name="elasticity" data="{elasticity!r}"/></custom>'
          f'<worldbody><geom name="floor" type="plane" size="10 10 1"/>{other}'
          f'<body name="a"><freejoint/><geom type="{shape}" size="{fmt(size)}" density="{density!r}"/></body></worldbody></mujoco>')


def with_bystander(q, bystander, nq_only=True):
  """State of the two-body scene: the bystander sphere rests on the ground 7 m away."""
  if bystander is None:
    return q
  return np.concatenate([[7.0, 0.0, bystander[1][0], 1.0, 0.0, 0.0, 0.0], q])


def lowest(shape, size, quat):
  r = modelgen.quat_to_mat(quat)
  if shape == 'sphere':
    return size[0]
  if shape == 'capsule':
    return size[0] + size[1] * abs(r[2, 2])
  return float(sum(size[i] * abs(r[2, i]) for i in range(3)))


@st.composite
def shape_(draw, lo=0.05, hi=0.3):
  shape = draw(st.sampled_from(['sphere', 'capsule', 'box']))
  n = {'sphere': 1, 'capsule': 2, 'box': 3}[shape]
  return shape, draw(st.lists(fl(lo, hi), min_size=n, max_size=n))


@st.composite
def hover_cases(draw):
  shape, size = draw(shape_())
  if shape == 'sphere' and draw(st.booleans()):
    shape, size = 'capsule', [size[0], draw(fl(0.15, 0.3))]
  return {'family': 'hover', 'shape': shape, 'size': size, 'density': draw(fl(200.0, 3000.0)), 'gravity': draw(st.sampled_from([0.0, -9.81])),
          'quat': draw(modelgen.unit_quat(identity_p=0.2)), 'clearance': draw(fl(0.0015, 0.02)),
          'gpos': draw(modelgen.vec3(-0.2, 0.2)), 'gquat': draw(modelgen.unit_quat(identity_p=0.1)),
          'margin': draw(st.sampled_from([0.0, 0.01, 0.03, 0.05])), 'vel': draw(modelgen.vec3(-0.5, 0.5))}


def check_hover(c, ctx=None):
  """A body whose geom (at a local offset and rotation) hovers a few mm above the ground, inside the geoms' declared
  contact margin or not, is not touching: one step equals the step with collisions disabled."""
  m = phys.mods()
  jax, jp = m['jax'], m['jp']
  dt = 0.002
  gpos, gquat = c.get('gpos', [0.0, 0.0, 0.0]), c.get('gquat', [1.0, 0.0, 0.0, 0.0])
  def xml(collide):
    cc = '' if collide else ' contype="0" conaffinity="0"'
    mg = f' margin="{c["margin"]!r}"' if c['margin'] else ''
    return (f'<mujoco><compiler angle="radian"/><option timestep="{dt!r}" gravity="0 0 {c["gravity"]!r}"/>'
            f'<custom><numeric name="matrix_inv_iterations" data="0"/></custom><worldbody><geom name="floor" type="plane" size="10 10 1"{cc}{mg}/>'
            f'<body name="a"><freejoint/><geom type="{c["shape"]}" size="{fmt(c["size"])}" pos="{fmt(gpos)}" quat="{fmt(gquat)}" '
            f'density="{c["density"]!r}"{cc}{mg}/></body></worldbody></mujoco>')
  phys.load_mj(xml(True))
  sysa, sysb = phys.load_brax(xml(True)), phys.load_brax(xml(False))
  def geom_low(bpos, bquat):
    wq = modelgen.quat_mul(np.array(bquat), np.array(gquat))
    centre = np.asarray(bpos) + modelgen.quat_to_mat(bquat) @ np.array(gpos)
    return centre[2] - lowest(c['shape'], c['size'], wq)
  z_body = c['clearance'] - geom_low([0.0, 0.0, 0.0], c['quat'])
  q = np.array([0.0, 0.0, z_body] + list(c['quat']))
  qd = np.array([c['vel'][0], c['vel'][1], max(c['vel'][2], -0.2 * c['clearance'] / dt), 0.0, 0.0, 0.0])
  worst = {}
  for pname in phys.PIPELINES:
    oa = {k: np.asarray(v) for k, v in one_step_fn(m, pname, sysa, 1)(jp.array(q), jp.array(qd), jp.zeros(0)).items()}
    ob = {k: np.asarray(v) for k, v in one_step_fn(m, pname, sysb, 1)(jp.array(q), jp.array(qd), jp.zeros(0)).items()}
    low1 = geom_low(ob['xp'][0], [float(x) for x in ob['xr'][0]])
    if low1 <= 1e-4:
      if ctx is not None:
        ctx.count('not_separated_not_compared')
      continue
    worst[pname] = twin_compare('separated', pname, oa, ob, {'check': 'separated', 'pipeline': pname, 'scene': 'hover'})
  if ctx is not None:
    for n_, v in worst.items():
      ctx.residual('hover_' + n_, v)
  return dict(fp=fingerprint(c), nontrivial=True, evals=len(worst), labels=['hover', 'inside_margin' if c['margin'] > c['clearance'] else 'outside_margin'],
              sample={'family': 'hover', **{k: c[k] for k in ('shape', 'size', 'clearance', 'margin', 'gravity')}, 'worst': worst})


@st.composite
def push_cases(draw):
  shape, size = draw(shape_())
  return {'family': 'push', 'shape': shape, 'size': size, 'density': draw(fl(200.0, 3000.0)), 'gravity': draw(st.sampled_from([0.0, -9.81])),
          'quat': draw(modelgen.unit_quat(identity_p=0.2)), 'pen': draw(fl(0.002, 0.02))}


def check_push(c, ctx=None):
  m = phys.mods()
  jax, jp = m['jax'], m['jp']
  dt = 0.002
  xml = body_xml(c['shape'], c['size'], c['density'], c['gravity'], dt)
  phys.load_mj(xml)
  sys = phys.load_brax(xml)
  low = lowest(c['shape'], c['size'], c['quat'])
  z0 = low - c['pen']
  q = np.array([0.0, 0.0, z0] + list(c['quat']))
  free_fall = c['gravity'] * dt * dt
  res = {}
  for pname in phys.PIPELINES:
    pm = m[pname]
    s1 = jax.jit(lambda q_: pm.step(sys, pm.init(sys, q_, jp.zeros(6)), jp.zeros(0)))(jp.array(q))
    z1, vz = float(s1.x.pos[0, 2]), float(s1.xd.vel[0, 2])
    res[pname] = {'dz': z1 - z0, 'vz': vz}
    if not z1 - z0 >= free_fall - 1e-9:
      raise Violation('pulled_in', f'{pname}: a {c["shape"]} resting {c["pen"] * 1000:.1f} mm inside the ground moved its centre by {z1 - z0:.3e} in one step '
                      f'(free fall would be {free_fall:.3e}): the contact pulled it in', labels={'check': 'push', 'pipeline': pname, 'level': 'position'})
    if pname != 'positional' and not vz >= c['gravity'] * dt - 1e-9:
      raise Violation('pulled_in', f'{pname}: normal velocity after the step {vz:.3e} is below free fall {c["gravity"] * dt:.3e}',
                      labels={'check': 'push', 'pipeline': pname, 'level': 'velocity'})
  pushed = any(r['dz'] > free_fall + 1e-9 for r in res.values())
  return dict(fp=fingerprint(c), nontrivial=True, evals=3, labels=['push', 'pushed_out' if pushed else 'push:trivial_no_response', 'shape:' + c['shape']],
              sample={'family': 'push', **{k: c[k] for k in ('shape', 'size', 'gravity', 'pen')}, 'result': res})


@st.composite
def rest_cases(draw):
  shape, size = draw(shape_())
  return {'family': 'resting', 'shape': shape, 'size': size, 'density': draw(fl(200.0, 3000.0)), 'drop': draw(st.one_of(fl(0.0, 0.5), st.just(0.0))),
          'bystander': draw(st.sampled_from([None, ['sphere', [0.1]], ['sphere', [0.2]]]))}


def check_resting(c, ctx=None, pipelines=phys.PIPELINES):
  m = phys.mods()
  jax, jp = m['jax'], m['jp']
  dt, nsteps = 0.002, 1500
  by = c.get('bystander')
  bi = 1 if by else 0   # link index of the body under test
  xml = body_xml(c['shape'], c['size'], c['density'], -9.81, dt, bystander=by)
  phys.load_mj(xml)
  sys = phys.load_brax(xml)
  if c['shape'] == 'capsule':
    quat, zrest = [math.sqrt(0.5), 0.0, math.sqrt(0.5), 0.0], c['size'][0]  # lying
  elif c['shape'] == 'box':
    quat, zrest = [1.0, 0.0, 0.0, 0.0], c['size'][2]
  else:
    quat, zrest = [1.0, 0.0, 0.0, 0.0], c['size'][0]
  q = with_bystander(np.array([0.0, 0.0, zrest + c['drop']] + quat), by)
  nvv = 12 if by else 6
  res = {}
  deferred = None
  for pname in pipelines:
    pm = m[pname]
    def roll(q_):
      s = pm.init(sys, q_, jp.zeros(nvv))
      def f(s_, _):
        s_ = pm.step(sys, s_, jp.zeros(0))
        return s_, (s_.x.pos[bi, 2], s_.xd.vel[bi, 2])
      return jax.lax.scan(f, s, None, length=nsteps)[1]
    z, vz = jax.jit(roll)(jp.array(q))
    z, vz = np.asarray(z), np.asarray(vz)
    if not np.all(np.isfinite(z)):
      raise Violation('resting', f'{pname}: {c["shape"]} dropped from {c["drop"]:.2f} m: height becomes non-finite', labels={'check': 'resting', 'pipeline': pname})
    sink = float((z - zrest).min())
    res[pname] = {'max_sink': sink, 'final_offset': float(z[-1] - zrest), 'final_vz': float(vz[-1])}
    if not sink >= -0.05:
      raise Violation('sinks', f'{pname}: {c["shape"]} {c["size"]} dropped from {c["drop"]:.2f} m sinks {-sink * 100:.1f} cm below its rest height '
                      f'at step {int(np.argmin(z))}', labels={'check': 'resting', 'pipeline': pname, 'what': 'sink'})
    if not (abs(z[-1] - zrest) <= 0.005 and abs(vz[-1]) <= 0.05):
      v_ = Violation('rest_height', f'{pname}: {c["shape"]} {c["size"]} after 3 s: centre {z[-1]:.4f} (analytic rest height {zrest:.4f}), v_z {vz[-1]:.3e}',
                      labels={'check': 'resting', 'pipeline': pname, 'what': 'rest_height', 'shape': c['shape']})
      if pname == 'spring' and c['shape'] == 'capsule':
        deferred = deferred or v_  # candidate for the recorded known finding: finish the other pipelines first
      else:
        raise v_
    if ctx is not None:
      ctx.residual('resting_sink_' + pname, -min(sink, 0.0))
      ctx.residual('resting_final_offset_' + pname, abs(z[-1] - zrest))
  if deferred is not None:
    raise deferred
  return dict(fp=fingerprint(c), nontrivial=True, evals=nsteps * len(pipelines), labels=['resting', 'shape:' + c['shape']] + (['two_trees'] if by else []),
              sample={'family': 'resting', **{k: c[k] for k in ('shape', 'size', 'density', 'drop')}, 'result': res})


@st.composite
def rebound_cases(draw):
  return {'family': 'rebound', 'r': draw(fl(0.05, 0.3)), 'density': draw(fl(200.0, 3000.0)),
          'e': draw(st.one_of(fl(0.0, 0.9), st.sampled_from([0.0, 0.9, 0.5]))), 'h': draw(fl(0.2, 1.0)),
          'bystander': draw(st.sampled_from([None, ['sphere', [0.1]]]))}


def check_rebound(c, ctx=None):
  m = phys.mods()
  jax, jp = m['jax'], m['jp']
  by = c.get('bystander')
  bi = 1 if by else 0
  xml = body_xml('sphere', [c['r']], c['density'], -9.81, 0.001, elasticity=c['e'], bystander=by)
  phys.load_mj(xml)
  sys = phys.load_brax(xml)
  q = with_bystander(np.array([0.0, 0.0, c['r'] + c['h'], 1.0, 0.0, 0.0, 0.0]), by)
  nvv = 12 if by else 6
  res = {}
  for pname, (lo, hi) in (('spring', (-0.02, 0.2)), ('positional', (-0.02, 0.02))):
    pm = m[pname]
    def roll(q_):
      s = pm.init(sys, q_, jp.zeros(nvv))
      def f(s_, _):
        s_ = pm.step(sys, s_, jp.zeros(0))
        return s_, s_.xd.vel[bi, 2]
      return jax.lax.scan(f, s, None, length=900)[1]
    vz = np.asarray(jax.jit(roll)(jp.array(q)))
    i = int(np.argmin(vz))
    vin = -vz[i]
    vout = float(vz[i:i + 20].max())
    ratio = vout / vin
    res[pname] = {'v_in': float(vin), 'v_out': vout, 'ratio_minus_e': float(ratio - c['e'])}
    if ctx is not None:
      ctx.residual('rebound_' + pname, abs(ratio - c['e']))
    if not lo <= ratio - c['e'] <= hi:
      raise Violation('rebound', f'{pname}: sphere r={c["r"]:.3f} dropped {c["h"]:.2f} m with elasticity {c["e"]:.3f} hits at {vin:.3f} m/s and leaves at '
                      f'{vout:.3f} m/s: ratio - e = {ratio - c["e"]:.3f} outside [{lo}, {hi}]', labels={'check': 'rebound', 'pipeline': pname})
  return dict(fp=fingerprint(c), nontrivial=True, evals=1800, labels=['rebound'] + (['two_trees'] if by else []), sample={'family': 'rebound', **{k: c[k] for k in ('r', 'e', 'h')}, 'result': res})


FAMILIES = {'separated': (separated_cases, check_separated), 'hover': (hover_cases, check_hover), 'limits': (limit_cases, check_limits), 'push': (push_cases, check_push),
            'resting': (rest_cases, check_resting), 'rebound': (rebound_cases, check_rebound)}


def tasks(tier, seed):
  q = tier == 'quick'
  out = []
  for _ in range(4):
    out.append({'kind': 'limits', 'n': 3 if q else 40})
  for _ in range(3):
    out.append({'kind': 'separated', 'n': 2 if q else 16})
  for _ in range(2):
    out.append({'kind': 'resting', 'n': 2 if q else 12})
  for _ in range(4):
    out.append({'kind': 'hover', 'n': 4 if q else 24})
  for _ in range(2):
    out.append({'kind': 'push', 'n': 3 if q else 20})
  for _ in range(1):
    out.append({'kind': 'rebound', 'n': 4 if q else 25})
  return out


def run_task(task, ctx):
  gen, fn = FAMILIES[task['kind']]
  def body(c):
    try:
      return fn(c, ctx)
    except phys.GeneratorReject:
      ctx.count('generator_rejects')
      return None
  ctx.run_given(gen(), body, task['n'], task['seed'], check=task['kind'], skip_simplest=True)


def replay(case, check_name=None):
  FAMILIES[case.get('family', check_name)][1](case)
