"""C04 - Newton's first and third laws: internal forces conserve total momentum; rest stays at rest."""

import numpy as np
from hypothesis import strategies as st

from vf import modelgen, phys
from vf.harness import Violation, fingerprint

PROPERTY = 'C04'
X64 = True
SHRINK = {'quick': 8, 'thorough': 50}
RULE = (
    'momentum: free-rooted generator models (any joint stacks, limits, damping, springs, motor/position/velocity actuators, any '
    'gravity vector, no world geometry) x initial state x a control sequence cycling K drawn control vectors, T steps (quick 30, '
    'thorough 120) of the spring and the positional pipeline in one lax.scan; after every step |P_t - P_(t-1) - M g dt| <= '
    '1e-9 (1 + sum_i m_i |v_i|). collision: two free bodies with sphere/capsule/box geoms launched at each other (contacts between '
    'the two bodies only), 150 steps. rest: generator models with any roots and stacks, joint springs removed, motor actuators '
    'only, zero gravity, qd = 0, ctrl = 0, |q| <= 1 inside the ranges, one step of each of the three pipelines: link velocities '
    '<= 1e-9, poses unchanged to 1e-12. Non-trivial: >= 2 links with a non-free joint and non-zero control or velocity '
    '(momentum); an impulse was exchanged (collision); >= 1 non-free joint with q != 0 (rest). Distinct: hash of the case.')
ASSUMPTIONS = [
    'global velocity damping at its default 0 (asserted)',
    'momentum uses the pipeline\'s own per-link mass (which includes spring_mass_scale)',
    'rest: the spring and positional joint models only implement orthogonal stacks of one joint kind or slides followed by one hinge; '
    'on other stacks they are measured and matched against known finding C04/rest-unsupported-stack; generalized is asserted on all',
]
TOLERANCES = {'momentum_step': '1e-9*(1+S_t)', 'rest_velocity': 1e-9, 'rest_pose': 1e-12}


def momentum_profile():
  return modelgen.profile(root='free', limits='some', actuators='any', max_bodies=5, gravity='any')


def rest_profile(supported=False):
  kw = dict(axes='orthogonal', stacks='supported', limits='all') if supported else dict(limits='some')
  return modelgen.profile( actuators='motor', springs=False, gravity='zero', max_bodies=4, **kw)


def _mom_fn(m, pm, sys, nsteps):
  jax, jp = m['jax'], m['jp']

  def roll(q, qd, cs):
    s = pm.init(sys, q, qd)
    def meas(s_):
      mv = s_.xd_i.vel * s_.mass[:, None]
      return jp.sum(mv, axis=0), jp.sum(jp.linalg.norm(mv, axis=-1))
    def f(s_, t):
      s_ = pm.step(sys, s_, cs[t % cs.shape[0]])
      p, sc = meas(s_)
      return s_, (p, sc, jp.max(jp.abs(s_.qd)))
    p0, s0 = meas(s)
    _, (p, sc, vm) = jax.lax.scan(f, s, jp.arange(nsteps))
    return p0, s0, p, sc, vm, jp.sum(s.mass)
  return jax.jit(roll)


def momentum_oracle(name, p0, s0, p, sc, mtot, grav, dt, where):
  allp = np.vstack([np.asarray(p0)[None], np.asarray(p)])
  alls = np.concatenate([[float(s0)], np.asarray(sc)])
  worst = 0.0
  nonfinite_at = None
  for t in range(1, allp.shape[0]):
    if not (np.all(np.isfinite(allp[t])) and np.isfinite(alls[t])):
      nonfinite_at = t
      break
    res = np.abs(allp[t] - allp[t - 1] - mtot * grav * dt).max()
    scale = 1.0 + max(alls[t], alls[t - 1])
    worst = max(worst, res / scale)
    if not res <= 1e-9 * scale:
      raise Violation('momentum', f'{where} {name} step {t}: total momentum changed by {(allp[t] - allp[t - 1]).tolist()}, '
                      f'M g dt = {(mtot * grav * dt).tolist()} (sum m|v| = {alls[t]:.3e})', labels={'check': 'momentum', 'pipeline': name})
  return worst, nonfinite_at, allp


def check_momentum(case, ctx=None):
  m = phys.mods()
  jp = m['jp']
  spec, states = case['spec'], case['states']
  xml = modelgen.to_xml(spec)
  phys.load_mj(xml)
  sys = phys.load_brax(xml)
  phys.check_structure(sys, spec)
  if float(sys.vel_damping) != 0.0:
    raise Violation('precondition', 'default vel_damping is not 0')
  q, qd, ctrl = phys.arr_states(states)
  nsteps = case['T']
  dt = float(sys.opt.timestep)
  grav = np.array(spec['gravity'], float)
  worst = {}
  for name in ('spring', 'positional'):
    f = _mom_fn(m, m[name], sys, nsteps)
    p0, s0, p, sc, vm, mtot = f(jp.array(q[0]), jp.array(qd[0]), jp.array(ctrl))
    w, nf, _ = momentum_oracle(name, p0, s0, p, sc, float(mtot), grav, dt, 'joints/actuators')
    worst[name] = w
    if ctx is not None:
      ctx.residual('momentum_' + name, w)
      if nf is not None:
        ctx.count('nonfinite_after_step_compared_until_then')
  nb = len(spec['bodies'])
  nt = nb >= 2 and any(not b['free'] for b in spec['bodies']) and (np.any(ctrl != 0) or np.any(qd[0] != 0))
  return dict(fp=fingerprint(case), nontrivial=bool(nt), evals=2 * nsteps, labels=['momentum'] + modelgen.classes(spec),
              sample={'family': 'momentum', 'model': phys.model_summary(spec), 'steps': nsteps, 'worst_relative_residual': worst})


# -- collisions between two free bodies ----------------------------------------


@st.composite
def collision_cases(draw):
  fl = modelgen.fl
  def geom():
    typ = draw(st.sampled_from(['sphere', 'capsule', 'box']))
    n = {'sphere': 1, 'capsule': 2, 'box': 3}[typ]
    return {'type': typ, 'size': draw(st.lists(fl(0.05, 0.2), min_size=n, max_size=n)), 'pos': draw(modelgen.vec3(-0.1, 0.1)),
            'quat': draw(modelgen.unit_quat()), 'density': draw(fl(200.0, 3000.0))}
  d = draw(modelgen.unit_vec())
  return {'geoms_a': [geom() for _ in range(draw(st.integers(1, 2)))], 'geoms_b': [geom()],
          'elasticity': draw(st.one_of(fl(0.0, 0.9), st.just(0.0))), 'gravity': draw(st.sampled_from([0.0, -9.81])),
          'dir': d, 'gap': draw(fl(0.45, 0.7)), 'qa': draw(modelgen.unit_quat()), 'qb': draw(modelgen.unit_quat()),
          'speed_a': draw(fl(0.5, 3.0)), 'speed_b': draw(fl(0.5, 3.0)), 'ang_a': draw(modelgen.vec3(-2.0, 2.0)),
          'ang_b': draw(modelgen.vec3(-2.0, 2.0)), 'T': 150}


def fmt(v):
  return ' '.join(repr(float(x)) for x in v)


def check_collision(c, ctx=None):
  m = phys.mods()
  jp = m['jp']
  def g(d):
    return (f'<geom type="{d["type"]}" size="{fmt(d["size"])}" pos="{fmt(d["pos"])}" quat="{fmt(d["quat"])}" '
            f'density="{d["density"]!r}"/>')
  xml = (f'<mujoco><compiler angle="radian"/><option timestep="0.002" gravity="0 0 {c["gravity"]!r}"/>'
         f'<custom><numeric name="elasticity" data="{c["elasticity"]!r}"/></custom><worldbody>'
         f'<body name="a"><freejoint/>{"".join(g(x) for x in c["geoms_a"])}</body>'
         f'<body name="b"><freejoint/>{"".join(g(x) for x in c["geoms_b"])}</body></worldbody></mujoco>')
  phys.load_mj(xml)
  sys = phys.load_brax(xml)
  d = np.array(c['dir'])
  q = np.concatenate([np.zeros(3), c['qa'], d * c['gap'], c['qb']])
  qd = np.concatenate([d * c['speed_a'], c['ang_a'], -d * c['speed_b'], c['ang_b']])
  grav = np.array([0.0, 0.0, c['gravity']])
  worst = {}
  exchanged = False
  for name in ('spring', 'positional'):
    pm = m[name]
    jax = m['jax']
    def roll(q_, qd_):
      s = pm.init(sys, q_, qd_)
      def meas(s_):
        mv = s_.xd_i.vel * s_.mass[:, None]
        return jp.sum(mv, axis=0), jp.sum(jp.linalg.norm(mv, axis=-1)), mv
      def f(s_, _):
        s_ = pm.step(sys, s_, jp.zeros(0))
        p, sc, mv = meas(s_)
        return s_, (p, sc, mv)
      p0, s0, mv0 = meas(s)
      _, (p, sc, mv) = jax.lax.scan(f, s, None, length=c['T'])
      return p0, s0, mv0, p, sc, mv, s.mass
    p0, s0, mv0, p, sc, mv, mass = jax.jit(roll)(jp.array(q), jp.array(qd))
    w, _, _ = momentum_oracle(name, p0, s0, p, sc, float(np.sum(np.asarray(mass))), grav, 0.002, 'two-body collision')
    worst[name] = w
    mv_all = np.concatenate([np.asarray(mv0)[None], np.asarray(mv)])
    per_body = np.diff(mv_all, axis=0) - np.asarray(mass)[None, :, None] * grav[None, None, :] * 0.002
    if np.nanmax(np.abs(per_body)) > 1e-6:
      exchanged = True
    if ctx is not None:
      ctx.residual('momentum_collision_' + name, w)
  return dict(fp=fingerprint(c), nontrivial=bool(exchanged), evals=2 * c['T'],
              labels=['collision', 'impulse_exchanged' if exchanged else 'no_contact'],
              sample={'family': 'collision', 'geoms': [x['type'] for x in c['geoms_a'] + c['geoms_b']],
                      'elasticity': c['elasticity'], 'gravity': c['gravity'], 'impulse_exchanged': exchanged, 'worst': worst})


# -- rest -------------------------------------------------------------------------


def check_rest(case, ctx=None):
  m = phys.mods()
  jax, jp = m['jax'], m['jp']
  spec, states = case['spec'], case['states']
  xml = modelgen.to_xml(spec)
  phys.load_mj(xml)
  sys = phys.load_brax(xml)
  s = phys.check_structure(sys, spec)
  q, _, _ = phys.arr_states(states)
  k = q.shape[0]
  nv, nu = s['nv'], s['nu']
  supported = all(modelgen.stack_supported(b) for b in spec['bodies'])
  known = None
  worst = {}
  for name in phys.PIPELINES:
    pm = m[name]
    def one(q_):
      s0 = pm.init(sys, q_, jp.zeros(nv))
      s1 = pm.step(sys, s0, jp.zeros(nu))
      rot = jp.minimum(jp.max(jp.abs(s1.x.rot - s0.x.rot), axis=-1), jp.max(jp.abs(s1.x.rot + s0.x.rot), axis=-1))
      return {'xd': jp.maximum(jp.max(jp.abs(s1.xd.vel)), jp.max(jp.abs(s1.xd.ang))),
              'dx': jp.max(jp.abs(s1.x.pos - s0.x.pos)), 'drot': jp.max(rot),
              'qd': jp.max(jp.abs(s1.qd)) if nv else jp.zeros(()), 'dq': s1.q - q_}
    out = jax.jit(jax.vmap(one))(jp.array(q))
    out = {kk: np.asarray(v) for kk, v in out.items()}
    for i in range(k):
      vals = {'xd': out['xd'][i], 'dx': out['dx'][i], 'drot': out['drot'][i], 'qd': out['qd'][i]}
      tol = {'xd': 1e-9, 'dx': 1e-12, 'drot': 1e-12, 'qd': 1e-9}
      bad = [kk for kk in vals if not vals[kk] <= tol[kk]]
      claimed = name == 'generalized' or supported
      for kk, v in vals.items():
        if claimed:
          worst[f'{name}_{kk}'] = max(worst.get(f'{name}_{kk}', 0.0), float(v) if np.isfinite(v) else float('inf'))
      if bad:
        v = Violation('rest', f'{name}: a system at rest (state {i}, q={np.round(q[i], 4).tolist()}) without gravity, control or contact moves after one step: '
                      + ', '.join(f'{kk}={vals[kk]:.3e}' for kk in bad),
                      labels={'check': 'rest', 'pipeline': name, 'stack_class': 'supported' if claimed else 'unsupported'})
        if claimed:
          raise v
        known = known or v
  if ctx is not None:
    for n_, v in worst.items():
      ctx.residual('rest_' + n_, v)
  nt = any(not b['free'] for b in spec['bodies'])
  sig = modelgen.topology_signature(spec)
  fps = [(fingerprint([sig, q[i].tolist()]), bool(nt and np.any(q[i] != 0))) for i in range(k)]
  info = dict(fps=fps, labels=['rest', 'stacks_supported' if supported else 'stacks_unsupported'] + modelgen.classes(spec),
              sample={'family': 'rest', 'model': phys.model_summary(spec), 'q0': q[0].tolist(), 'supported_stacks': supported, 'worst': worst})
  return info, known


def tasks(tier, seed):
  q = tier == 'quick'
  out = []
  for _ in range(6):
    out.append({'kind': 'collision', 'n': 1 if q else 12})
  for _ in range(10):
    out.append({'kind': 'momentum', 'n': 3 if q else 40, 'T': 30 if q else 120})
  for i in range(10):
    out.append({'kind': 'rest', 'supported': i % 5 != 0, 'n': 3 if q else 40, 'k': 8 if q else 16})
  return out


def run_task(task, ctx):
  kind = task['kind']
  def guard(fn):
    def body(c):
      try:
        return fn(c)
      except phys.GeneratorReject:
        ctx.count('generator_rejects')
        return None
    return body
  if kind == 'momentum':
    strat = modelgen.model_and_states(momentum_profile(), k=4, q_range=(-1.0, 1.0), cls_list=['stack', 'actuated', 'slide_on_rotated', 'anchor', 'plain'])
    strat = strat.map(lambda c: dict(c, family='momentum', T=task['T']))
    ctx.run_given(strat, guard(lambda c: check_momentum(c, ctx)), task['n'], task['seed'], check='momentum')
  elif kind == 'collision':
    ctx.run_given(collision_cases().map(lambda c: dict(c, family='collision')), guard(lambda c: check_collision(c, ctx)),
                  task['n'], task['seed'], check='collision', skip_simplest=True)
  else:
    strat = modelgen.model_and_states(rest_profile(task.get('supported', False)), k=task['k'], q_range=(-1.0, 1.0), inside_limits=True, zero_qd=True,
                                      cls_list=['stack', 'stack', 'fixed_root', 'free_root', 'anchor', 'actuated'])
    strat = strat.map(lambda c: dict(c, family='rest'))
    def body(c):
      info, known = check_rest(c, ctx)
      if known is not None:
        ctx.record(**info)
        raise known
      return info
    ctx.run_given(strat, guard(body), task['n'], task['seed'], check='rest')


def replay(case, check_name=None):
  fam = case.get('family', check_name)
  if fam == 'momentum':
    check_momentum(case)
  elif fam == 'collision':
    check_collision(case)
  else:
    _, known = check_rest(case)
    if known is not None:
      raise known
