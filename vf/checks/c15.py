"""C15 - Episode / AutoReset / Eval wrappers and acting keep exact episode accounting.

System under test: training.wrap(ScriptedEnv, L, r), envs.create(..., L, r, batch_size), EvalWrapper,
acting.generate_unroll and acting.Evaluator.  The scripted env reads its whole termination schedule
from the reset key (bit t-1 of key[0] & mask = done at inner step t), so one compiled wrapper stack
serves every schedule and a batch can hold many different schedules.
"""

import itertools

import numpy as np
from hypothesis import strategies as st

from vf.harness import Violation, fingerprint

PROPERTY = 'C15'
X64 = False
EXHAUSTIVE = True
RULE = (
    'exhaustive: all 256 termination schedules over inner steps 1..8 (covers every schedule of length <= 8) x '
    'episode_length 1-6 x action_repeat 1-3 x {non-sticky, sticky} inner done x both construction paths (training.wrap, '
    'envs.create) x histories of 3*ceil(L/r)+2 wrapped steps, 256 members with different schedules in one batch, every '
    'field compared with a plain-Python episode model after every wrapped step; same for EvalWrapper metrics. sampled: '
    'Hypothesis-drawn 24-bit schedules, L <= 20, r <= 4, 8 members, drawn action sequences, through wrap/create + EvalWrapper, '
    'acting.generate_unroll (transition chaining, discount, extras) and acting.Evaluator.run_evaluation; envs.create with '
    'episode_length=None (no EpisodeWrapper) equals, field by field, the same env with a time limit of 10**6 that is never reached. Each (schedule, L, r, '
    'sticky, path) history is distinct. Non-trivial: history contains a termination and a truncation, or a termination in the '
    'middle of an action repeat, or done on consecutive wrapped steps.')
ASSUMPTIONS = [
    'a wrapped step is atomic: with action_repeat r the cut happens at the first wrapped-step boundary with steps >= episode_length '
    '(exactly episode_length when r divides it)',
    'inner done of a wrapped step is the done of its last sub-step (a non-sticky inner env can lose a mid-repeat termination: that is '
    'the inner env\'s contract, the model mirrors it)',
    'brax.v1 import stubbed (acting uses it for type aliases only)',
]
TOLERANCES = {'all comparisons': 'exact (small integers in float32)'}

MASK_ALL = 0xFFFFFFF0
_c = {}


def mods():
  if _c:
    return _c
  from vf.stubs import stub_v1
  stub_v1()
  import jax
  from jax import numpy as jp
  from brax import envs
  from brax.envs.base import Env, State
  from brax.envs.wrappers import training
  from brax.training import acting

  class ScriptedEnv(Env):
    """Deterministic env; everything is a function of (key, inner step, action)."""

    def __init__(self, sticky=False, **kwargs):
      del kwargs
      self.sticky = sticky

    def reset(self, rng):
      k0, k1 = rng[0].astype(jp.uint32), rng[1].astype(jp.uint32)
      ps = {'t': jp.zeros((), jp.int32), 'k0': k0, 'k1': k1}
      member = (k1 & 15).astype(jp.float32)
      obs = jp.stack([member, jp.zeros((), jp.float32)])
      return State(ps, obs, jp.zeros(()), jp.zeros(()), {'m2': jp.zeros(())})

    def step(self, state, action):
      ps = state.pipeline_state
      t = ps['t'] + 1
      sched = ps['k0'] & (ps['k1'] >> 4 | jp.uint32(0xF0000000))
      bit = (sched >> jp.minimum(t - 1, 31).astype(jp.uint32)) & 1
      d = jp.where(t <= 28, bit, 0).astype(jp.float32)
      if self.sticky:
        d = jp.maximum(d, state.done)
      member = (ps['k1'] & 15).astype(jp.float32)
      a = action[0]
      tf = t.astype(jp.float32)
      reward = 100.0 * member + 10.0 * tf + a
      obs = jp.stack([member, tf])
      return state.replace(pipeline_state={'t': t, 'k0': ps['k0'], 'k1': ps['k1']}, obs=obs, reward=reward,
                           done=d, metrics={**state.metrics, 'm2': 7.0 * tf + member + 3.0 * a})

    @property
    def observation_size(self):
      return 2

    @property
    def action_size(self):
      return 1

    @property
    def backend(self):
      return 'scripted'

  class StickyEnv(ScriptedEnv):
    def __init__(self, **kwargs):
      super().__init__(sticky=True, **kwargs)

  envs.register_environment('verif_scripted', ScriptedEnv)
  envs.register_environment('verif_scripted_sticky', StickyEnv)
  _c.update(jax=jax, jp=jp, envs=envs, training=training, acting=acting, ScriptedEnv=ScriptedEnv, fns={})
  return _c


def sched_of(k0, k1):
  return (k0 & ((k1 >> 4) | 0xF0000000)) & 0xFFFFFFFF


class Member:
  """Reference model of one batch member (written from the property text)."""

  def __init__(self, k0, k1, ep_len, repeat, sticky):
    self.sched = sched_of(k0, k1)
    self.member = k1 & 15
    self.L, self.r, self.sticky = ep_len, repeat, sticky
    self.t = 0
    self.steps = 0
    self.done = 0
    self.trunc = 0
    self.obs = (self.member, 0)
    self.reward = 0
    self.m2 = 0
    # eval
    self.active = 1
    self.ep_reward = 0
    self.ep_m2 = 0
    self.ep_steps = 0
    self.flags = set()

  def inner_done(self, t):
    return (self.sched >> (t - 1)) & 1 if 1 <= t <= 28 else 0

  def step(self, a):
    prev_done = self.done
    if prev_done:
      self.steps = 0
    d = 0
    rew = 0
    for k in range(self.r):
      self.t += 1
      bit = self.inner_done(self.t)
      d = max(d, bit) if self.sticky else bit
      if bit and k < self.r - 1:
        self.flags.add('mid_repeat_termination')
      rew += 100 * self.member + 10 * self.t + a
      m2 = 7 * self.t + self.member + 3 * a
    self.steps += self.r
    cut = self.steps >= self.L
    self.done = 1 if (d or cut) else 0
    self.trunc = 1 if (cut and not d) else 0
    self.reward, self.m2 = rew, m2
    self.obs = (self.member, self.t)
    if d:
      self.flags.add('termination')
    if self.trunc:
      self.flags.add('truncation')
    if self.done and prev_done:
      self.flags.add('consecutive_done')
    # eval metrics accumulate the first episode only
    if self.active:
      self.ep_steps = self.steps
    self.ep_reward += rew * self.active
    self.ep_m2 += m2 * self.active
    self.active = self.active * (1 - self.done)
    if self.done:  # auto reset: next observation and state are the reset ones
      self.t = 0
      self.obs = (self.member, 0)

  def nontrivial(self):
    return (('termination' in self.flags and 'truncation' in self.flags)
            or 'mid_repeat_termination' in self.flags or 'consecutive_done' in self.flags)


def build_env(path, ep_len, repeat, sticky, batch):
  m = mods()
  if path == 'wrap':
    env = m['ScriptedEnv'](sticky=sticky)
    return m['training'].wrap(env, episode_length=ep_len, action_repeat=repeat)
  name = 'verif_scripted_sticky' if sticky else 'verif_scripted'
  return m['envs'].create(name, episode_length=ep_len, action_repeat=repeat, auto_reset=True, batch_size=batch)


def get_fns(path, ep_len, repeat, sticky, batch, with_eval):
  m = mods()
  key = (path, ep_len, repeat, sticky, batch, with_eval)
  if key not in m['fns']:
    if len(m['fns']) > 60:
      m['fns'].clear()
    env = build_env(path, ep_len, repeat, sticky, batch)
    if with_eval:
      env = m['training'].EvalWrapper(env)
    m['fns'][key] = (env, m['jax'].jit(env.reset), m['jax'].jit(env.step))
  return m['fns'][key]


def reset_keys(path, keys, batch):
  """Returns (argument for env.reset, per-member (k0, k1))."""
  m = mods()
  jax, jp = m['jax'], m['jp']
  if path == 'wrap':
    arr = np.array(keys, dtype=np.uint32).reshape(batch, 2)
    return jp.array(arr), [(int(a), int(b)) for a, b in arr]
  # envs.create(batch_size=B) splits one key itself: reproduce the split to learn the members' keys
  base = jp.array(np.array(keys[0], dtype=np.uint32))
  sub = np.asarray(jax.random.split(base, batch))
  return base, [(int(a), int(b)) for a, b in sub]


def compare(state, members, where, with_eval):
  m = mods()
  np_ = lambda x: np.asarray(x)
  done, rew = np_(state.done), np_(state.reward)
  steps, trunc = np_(state.info['steps']), np_(state.info['truncation'])
  obs, t = np_(state.obs), np_(state.pipeline_state['t'])
  m2 = np_(state.metrics['m2'])
  if with_eval:
    em = state.info['eval_metrics']
    e_act, e_steps = np_(em.active_episodes), np_(em.episode_steps)
    e_rew, e_m2 = np_(em.episode_metrics['reward']), np_(em.episode_metrics['m2'])
  for i, mo in enumerate(members):
    def bad(field, got, exp):
      raise Violation(field, f'{where} member {i} (schedule {mo.sched & 0xFFFFFF:#08x}, L={mo.L}, r={mo.r}): '
                      f'{field} = {got}, model {exp}', labels={'field': field})
    if int(done[i]) != mo.done:
      bad('done', done[i], mo.done)
    if int(trunc[i]) != mo.trunc:
      bad('truncation', trunc[i], mo.trunc)
    if int(steps[i]) != mo.steps:
      bad('steps', steps[i], mo.steps)
    if float(rew[i]) != float(mo.reward):
      bad('reward', rew[i], mo.reward)
    if float(m2[i]) != float(mo.m2):
      bad('metric', m2[i], mo.m2)
    if (int(obs[i][0]), int(obs[i][1])) != mo.obs:
      bad('obs', obs[i].tolist(), mo.obs)
    if int(t[i]) != mo.t:
      bad('pipeline_state', t[i], mo.t)
    if with_eval:
      if int(e_act[i]) != mo.active:
        bad('eval_active', e_act[i], mo.active)
      if int(e_steps[i]) != mo.ep_steps:
        bad('eval_episode_steps', e_steps[i], mo.ep_steps)
      if float(e_rew[i]) != float(mo.ep_reward):
        bad('eval_episode_reward', e_rew[i], mo.ep_reward)
      if float(e_m2[i]) != float(mo.ep_m2):
        bad('eval_episode_metric', e_m2[i], mo.ep_m2)


def run_history(c):
  """c: path, L, r, sticky, eval, keys [[k0,k1]...], actions [[a per member] per step]."""
  m = mods()
  jp = m['jp']
  batch = len(c['keys']) if c['path'] == 'wrap' else c['batch']
  env, reset, step = get_fns(c['path'], c['L'], c['r'], c['sticky'], batch, c['eval'])
  arg, kk = reset_keys(c['path'], c['keys'], batch)
  state = reset(arg)
  members = [Member(k0, k1, c['L'], c['r'], c['sticky']) for k0, k1 in kk]
  where = f'{c["path"]} L={c["L"]} r={c["r"]} sticky={c["sticky"]} after reset'
  if np.any(np.asarray(state.done) != 0):
    raise Violation('reset_done', f'{where}: done != 0 after reset')
  compare(state, members, where, c['eval'])
  for si, acts in enumerate(c['actions']):
    acts = (list(acts) * batch)[:batch] if len(acts) < batch else acts
    state = step(state, jp.array(np.array(acts, np.float32).reshape(batch, 1)))
    for mo, a in zip(members, acts):
      mo.step(int(a))
    compare(state, members, f'{c["path"]} L={c["L"]} r={c["r"]} sticky={c["sticky"]} eval={c["eval"]} wrapped step {si}', c['eval'])
  return members


# ---------------------------------------------------------------------------
# exhaustive scope


def exhaustive_config(task, ctx):
  path, ep_len, repeat, sticky, with_eval = task['path'], task['L'], task['r'], task['sticky'], task['eval']
  nsteps = 3 * -(-ep_len // repeat) + 2
  if path == 'wrap':
    keys = [[bits, MASK_ALL | (bits & 15)] for bits in range(256)]
    batch = 256
  else:
    # create() draws the members' keys itself (random schedules); enumerate many base keys instead
    keys = [[task['seed'] % (2**32), 12345]]
    batch = 256
  acts = [[(si + j) % 4 for j in range(batch)] for si in range(nsteps)]
  c = {'path': path, 'L': ep_len, 'r': repeat, 'sticky': sticky, 'eval': with_eval, 'keys': keys,
       'batch': batch, 'actions': acts}
  try:
    members = run_history(c)
  except Violation as v:
    # shrink to the single offending member for the replay file
    small = dict(c)
    if path == 'wrap':
      import re
      mm = re.search(r'member (\d+)', v.detail)
      if mm:
        i = int(mm.group(1))
        small = dict(c, keys=[keys[i]], actions=[[a[i]] for a in acts])
        try:
          run_history(small)
          small = c
        except Violation as v2:
          v = v2
    ctx.violation(small, v, check='history')
    return
  nt = sum(1 for mo in members if mo.nontrivial())
  ctx.enum(len(members) * nsteps, len(members), nt)
  for f in ('termination', 'truncation', 'mid_repeat_termination', 'consecutive_done'):
    ctx.count('members_with_' + f, sum(1 for mo in members if f in mo.flags))
  if path == 'wrap' and ep_len in (1, 4, 6) and repeat in (1, 3):
    mo = members[0b00101000 if ep_len > 3 else 1]
    ctx.record(fp=None, labels=[], evals=0, sample={
        'exhaustive_config': {k: task[k] for k in ('path', 'L', 'r', 'sticky', 'eval')}, 'members': len(members),
        'wrapped_steps': nsteps, 'example_member_schedule_bits': bin(mo.sched & 0xFF), 'example_flags': sorted(mo.flags)})
    ctx.programs -= 1


# ---------------------------------------------------------------------------
# sampled histories, unrolls, evaluator


@st.composite
def histories(draw):
  path = draw(st.sampled_from(['wrap', 'wrap', 'create']))
  ep_len = draw(st.one_of(st.integers(1, 6), st.integers(1, 20)))
  repeat = draw(st.sampled_from([1, 1, 2, 3, 4]))
  batch = 8
  dens = draw(st.sampled_from([0xFFFFFF, 0x888888, 0x010101, 0x842184, 0x000000]))
  keys = [[draw(st.integers(0, 2**24 - 1)) & (dens | draw(st.integers(0, 2**24 - 1)) & draw(st.integers(0, 2**24 - 1))),
           MASK_ALL | i] for i in range(batch)]
  if path == 'create':
    keys = [[draw(st.integers(0, 2**32 - 1)), draw(st.integers(0, 2**32 - 1))]]
  nsteps = draw(st.integers(1, min(40, 3 * -(-ep_len // repeat) + 4)))
  acts = draw(st.lists(st.lists(st.integers(0, 3), min_size=batch, max_size=batch), min_size=nsteps, max_size=nsteps))
  return {'kind': 'history', 'path': path, 'L': ep_len, 'r': repeat, 'sticky': draw(st.booleans()),
          'eval': draw(st.booleans()), 'keys': keys, 'batch': batch, 'actions': acts}


def check_history(c):
  members = run_history(c)
  nt = any(mo.nontrivial() for mo in members)
  flags = set().union(*[mo.flags for mo in members])
  return dict(fp=fingerprint(c), nontrivial=bool(nt), evals=len(c['actions']) * len(members),
              labels=[f'path:{c["path"]}', 'eval' if c['eval'] else 'no_eval', f'r:{c["r"]}',
                      'r_divides_L' if c['L'] % c['r'] == 0 else 'r_not_divides_L'] + sorted('has:' + f for f in flags),
              sample={'path': c['path'], 'L': c['L'], 'r': c['r'], 'sticky': c['sticky'], 'eval': c['eval'],
                      'schedules': [hex(mo.sched & 0xFFFFFF) for mo in members], 'wrapped_steps': len(c['actions']),
                      'flags': sorted(flags)})


@st.composite
def unrolls(draw):
  ep_len = draw(st.integers(1, 12))
  repeat = draw(st.sampled_from([1, 1, 2, 3]))
  batch = 4
  keys = [[draw(st.integers(0, 2**24 - 1)) & draw(st.integers(0, 2**24 - 1)), MASK_ALL | i] for i in range(batch)]
  return {'kind': 'unroll', 'L': ep_len, 'r': repeat, 'sticky': draw(st.booleans()), 'keys': keys,
          'length': draw(st.integers(1, 16)), 'pkey': draw(st.integers(0, 2**31 - 1)), 'mult': draw(st.integers(1, 3))}


def policy_action(obs_member, obs_t, mult):
  return (obs_member + mult * obs_t) % 4


def check_unroll(c):
  m = mods()
  jax, jp, acting = m['jax'], m['jp'], m['acting']
  batch = len(c['keys'])
  env, reset, _ = get_fns('wrap', c['L'], c['r'], c['sticky'], batch, False)
  arg, kk = reset_keys('wrap', c['keys'], batch)
  state = reset(arg)
  mult = c['mult']

  def policy(obs, key):
    del key
    a = jp.mod(obs[..., 0] + mult * obs[..., 1], 4.0)
    return a[..., None], {'a_copy': a}

  final, data = acting.generate_unroll(env, state, policy, jax.random.PRNGKey(c['pkey']), c['length'],
                                       extra_fields=('truncation', 'steps'))
  members = [Member(k0, k1, c['L'], c['r'], c['sticky']) for k0, k1 in kk]
  obs_t, nobs_t = np.asarray(data.observation), np.asarray(data.next_observation)
  rew, disc, act = np.asarray(data.reward), np.asarray(data.discount), np.asarray(data.action)
  tr, stp = np.asarray(data.extras['state_extras']['truncation']), np.asarray(data.extras['state_extras']['steps'])
  if obs_t.shape != (c['length'], batch, 2):
    raise Violation('unroll_shape', f'observation shape {obs_t.shape}')
  for t in range(c['length']):
    for i, mo in enumerate(members):
      where = f'unroll L={c["L"]} r={c["r"]} step {t} member {i}'
      before = mo.obs
      a = policy_action(before[0], before[1], mult)
      mo.step(a)
      if (int(obs_t[t, i, 0]), int(obs_t[t, i, 1])) != before:
        raise Violation('unroll_observation', f'{where}: transition.observation {obs_t[t, i]} model {before}')
      if int(act[t, i, 0]) != a:
        raise Violation('unroll_action', f'{where}: action {act[t, i]} model {a}')
      if (int(nobs_t[t, i, 0]), int(nobs_t[t, i, 1])) != mo.obs:
        raise Violation('unroll_next_observation', f'{where}: next_observation {nobs_t[t, i]} model {mo.obs}')
      if float(rew[t, i]) != float(mo.reward):
        raise Violation('unroll_reward', f'{where}: reward {rew[t, i]} model {mo.reward}')
      if float(disc[t, i]) != 1 - mo.done:
        raise Violation('unroll_discount', f'{where}: discount {disc[t, i]} model {1 - mo.done}')
      if int(tr[t, i]) != mo.trunc or int(stp[t, i]) != mo.steps:
        raise Violation('unroll_extras', f'{where}: truncation/steps {tr[t, i]}/{stp[t, i]} model {mo.trunc}/{mo.steps}')
      if t + 1 < c['length'] and not np.array_equal(nobs_t[t, i], obs_t[t + 1, i]):
        raise Violation('unroll_chain', f'{where}: next_observation {nobs_t[t, i]} != following observation {obs_t[t + 1, i]}')
  compare(final, members, f'unroll L={c["L"]} r={c["r"]} final state', False)
  nt = any(mo.nontrivial() for mo in members)
  return dict(fp=fingerprint(c), nontrivial=bool(nt), labels=['unroll'], evals=c['length'] * batch,
              sample={'check': 'generate_unroll', 'L': c['L'], 'r': c['r'], 'length': c['length'],
                      'schedules': [hex(mo.sched & 0xFFFFFF) for mo in members]})


@st.composite
def evaluations(draw):
  return {'kind': 'evaluator', 'L': draw(st.integers(1, 12)), 'r': draw(st.sampled_from([1, 1, 2, 3])),
          'sticky': draw(st.booleans()), 'n': draw(st.sampled_from([1, 3, 8])),
          'key': draw(st.lists(st.integers(0, 2**32 - 1), min_size=2, max_size=2)),
          'mult': draw(st.integers(1, 3)), 'aggregate': draw(st.booleans()), 'epochs': draw(st.integers(1, 2))}


def check_evaluator(c):
  m = mods()
  jax, jp, acting = m['jax'], m['jp'], m['acting']
  env = build_env('wrap', c['L'], c['r'], c['sticky'], c['n'])
  mult = c['mult']

  def policy_fn(params):
    del params
    def policy(obs, key):
      del key
      return jp.mod(obs[..., 0] + mult * obs[..., 1], 4.0)[..., None], {}
    return policy

  key = jp.array(np.array(c['key'], np.uint32))
  ev = acting.Evaluator(env, policy_fn, num_eval_envs=c['n'], episode_length=c['L'], action_repeat=c['r'], key=key)
  cur = key
  for epoch in range(c['epochs']):
    metrics = ev.run_evaluation(None, {'train/x': 1.0}, aggregate_episodes=c['aggregate'])
    cur, unroll_key = jax.random.split(cur)
    sub = np.asarray(jax.random.split(unroll_key, c['n']))
    members = [Member(int(a), int(b), c['L'], c['r'], c['sticky']) for a, b in sub]
    for _ in range(c['L'] // c['r']):
      for mo in members:
        mo.step(policy_action(mo.obs[0], mo.obs[1], mult))
    exp_r = np.array([mo.ep_reward for mo in members], np.float64)
    exp_m = np.array([mo.ep_m2 for mo in members], np.float64)
    exp_s = np.array([mo.ep_steps for mo in members], np.float64)
    where = f'Evaluator L={c["L"]} r={c["r"]} n={c["n"]} epoch {epoch}'
    def eq(name, got, exp):
      got = np.asarray(got, np.float64)
      if got.shape != np.shape(exp) or not np.allclose(got, exp, rtol=1e-6, atol=1e-6):
        raise Violation('evaluator_' + name.split('/')[-1], f'{where}: {name} = {got} model {exp}')
    if c['aggregate']:
      eq('eval/episode_reward', metrics['eval/episode_reward'], exp_r.mean())
      eq('eval/episode_m2', metrics['eval/episode_m2'], exp_m.mean())
      eq('eval/episode_reward_std', metrics['eval/episode_reward_std'], exp_r.std())
    else:
      eq('eval/episode_reward', metrics['eval/episode_reward'], exp_r)
      eq('eval/episode_m2', metrics['eval/episode_m2'], exp_m)
    eq('eval/avg_episode_length', metrics['eval/avg_episode_length'], exp_s.mean())
    if metrics.get('train/x') != 1.0:
      raise Violation('evaluator_passthrough', f'{where}: training metrics not passed through')
  nt = any(mo.nontrivial() or 'termination' in mo.flags for mo in members)
  return dict(fp=fingerprint(c), nontrivial=bool(nt), labels=['evaluator', 'aggregate' if c['aggregate'] else 'per_episode'],
              evals=c['n'] * (c['L'] // c['r']) * c['epochs'],
              sample={'check': 'Evaluator.run_evaluation', **{k: c[k] for k in ('L', 'r', 'n', 'sticky', 'aggregate', 'epochs')},
                      'episode_rewards': exp_r.tolist(), 'episode_steps': exp_s.tolist()})


@st.composite
def nolimit_histories(draw):
  nsteps = draw(st.integers(4, 40))
  return {'kind': 'nolimit', 'batch': 8, 'sticky': draw(st.booleans()),
          'keys': [[draw(st.integers(0, 2**32 - 1)), draw(st.integers(0, 2**32 - 1))]],
          'actions': draw(st.lists(st.lists(st.integers(0, 3), min_size=8, max_size=8), min_size=nsteps, max_size=nsteps))}


def check_nolimit(c):
  """envs.create(..., episode_length=None) builds no EpisodeWrapper: there is no time limit, and auto-reset still applies.
  Differential oracle: it must behave, field by field, as the same environment with a time limit that is never reached
  (that configuration's accounting is what the reference model verifies for L = 1..20)."""
  m = mods()
  jp = m['jp']
  batch = c['batch']
  _, reset_a, step_a = get_fns('create', None, 1, c['sticky'], batch, False)
  _, reset_b, step_b = get_fns('create', 10 ** 6, 1, c['sticky'], batch, False)
  arg, _ = reset_keys('create', c['keys'], batch)
  sa, sb = reset_a(arg), reset_b(arg)
  ended, after_end = False, False

  def same(where):
    for name, get in (('obs', lambda s: s.obs), ('reward', lambda s: s.reward), ('done', lambda s: s.done),
                      ('inner_t', lambda s: s.pipeline_state['t']), ('metric', lambda s: s.metrics['m2'])):
      a, b = np.asarray(get(sa)), np.asarray(get(sb))
      if not np.array_equal(a, b):
        i = int(np.argwhere(np.atleast_1d((a != b).reshape(batch, -1).any(axis=1)))[0][0])
        raise Violation('no_limit_' + name, f'create(episode_length=None, sticky={c["sticky"]}) {where}: member {i} {name} = {a[i].tolist()}, '
                        f'with a time limit that is never reached {b[i].tolist()}', labels={'field': name, 'path': 'create_no_limit'})
  same('after reset')
  if np.any(np.asarray(sa.done) != 0):
    raise Violation('reset_done', 'create(episode_length=None): done != 0 after reset')
  for si, acts in enumerate(c['actions']):
    a = jp.array(np.array(acts, np.float32).reshape(batch, 1))
    after_end = after_end or ended
    sa, sb = step_a(sa, a), step_b(sb, a)
    same(f'wrapped step {si}')
    ended = ended or bool(np.any(np.asarray(sb.done) == 1))
  return dict(fp=fingerprint(c), nontrivial=bool(after_end), evals=len(c['actions']) * batch,
              labels=['path:create_no_limit', 'has:termination' if ended else 'no_termination'],
              sample={'path': 'create(episode_length=None)', 'sticky': c['sticky'], 'wrapped_steps': len(c['actions']),
                      'episode_ended': ended})


def tasks(tier, seed):
  q = tier == 'quick'
  out = []
  for _ in range(2):
    out.append({'kind': 'nolimit', 'n': 8 if q else 150})
  for path in ('wrap', 'create'):
    for sticky in (False, True):
      for with_eval in (False, True):
        for ep_len in range(1, 7):
          for repeat in (1, 2, 3):
            if sticky and repeat == 1:
              continue  # identical to non-sticky
            out.append({'kind': 'exhaustive', 'path': path, 'L': ep_len, 'r': repeat, 'sticky': sticky, 'eval': with_eval})
  for _ in range(8):
    out.append({'kind': 'history', 'n': 25 if q else 400})
  for _ in range(4):
    out.append({'kind': 'unroll', 'n': 10 if q else 150})
  for _ in range(4):
    out.append({'kind': 'evaluator', 'n': 6 if q else 100})
  return out


def run_task(task, ctx):
  k = task['kind']
  if k == 'exhaustive':
    exhaustive_config(task, ctx)
  elif k == 'history':
    ctx.run_given(histories(), check_history, task['n'], task['seed'], check='history')
  elif k == 'unroll':
    ctx.run_given(unrolls(), check_unroll, task['n'], task['seed'], check='unroll')
  elif k == 'nolimit':
    ctx.run_given(nolimit_histories(), check_nolimit, task['n'], task['seed'], check='nolimit')
  else:
    ctx.run_given(evaluations(), check_evaluator, task['n'], task['seed'], check='evaluator')


def replay(case, check=None):
  kind = case.get('kind', 'history')
  if kind == 'nolimit':
    check_nolimit(case)
  elif kind == 'unroll':
    check_unroll(case)
  elif kind == 'evaluator':
    check_evaluator(case)
  else:
    run_history(case)
