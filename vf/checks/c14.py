"""C14 - unsupported features are rejected by every native pipeline init; accepted models load consistently."""

import xml.etree.ElementTree as ET

import numpy as np
from hypothesis import strategies as st

from vf import modelgen, phys
from vf.harness import Violation, derive_seed, fingerprint

PROPERTY = 'C14'
X64 = True
SHRINK = {'quick': 15, 'thorough': 80}
FEATURES = [
    'integrator_rk4', 'integrator_implicit', 'integrator_implicitfast', 'cone_elliptic', 'wind', 'fluid_ellipsoid',
    'impratio', 'site_transmission', 'tendon_transmission', 'gain_affine', 'joint_ref', 'ball', 'ball_limited',
    'ball_in_stack', 'free_stiffness', 'solmix', 'priority', 'cylinder', 'anchor_mismatch',
]
RULE = (
    'generator model x {clean, or exactly one unsupported feature injected at a Hypothesis-chosen eligible element} x the three '
    'native pipelines. The feature is an outer deterministic loop (' + str(len(FEATURES)) + ' injections: ' + ', '.join(FEATURES) +
    '), so per-feature counts are equal by construction; the model is built to contain an eligible element. Injected: '
    'mjcf.loads + jax.eval_shape(P.init) must raise for each P (eager P.init as well on a subsample). Clean: no exception and '
    'sizes, link types, parents-before-children, names, actuator indices, dof maps, init_q and the forward kinematics of init_q '
    'agree with the spec / MuJoCo at qpos0. history: a clean model is accepted, then the same document with a feature injected and the '
    'first MjModel switched to an unsupported option in place must both be rejected (acceptance must not be remembered). Non-trivial: injected element is not the first eligible one, or (clean) >= 2 links. '
    'Distinct: hash of (feature, element index, spec).')
ASSUMPTIONS = [
    'every injected document is compiled by MuJoCo itself first (a document MuJoCo refuses is a generator reject, not a pass)',
    'muscle gain/bias types are not injected (MuJoCo needs a length range it cannot compute on random models)',
]
TOLERANCES = {'init pose vs MuJoCo qpos0': 1e-9}
PROFILE = modelgen.profile(limits='some', max_bodies=5)


def _all(root, tag):
  return [e for e in root.find('worldbody').iter(tag)]


def inject(xml, feature, pick, cyl_mask=(1, 1)):
  """Returns (xml', element index, number of eligible elements) or None if not eligible."""
  root = ET.fromstring(xml)
  opt = root.find('option')
  joints = [j for j in _all(root, 'joint')]
  bodies = _all(root, 'body')
  geoms = [g for g in _all(root, 'geom') if g.get('type') != 'plane']
  frees = _all(root, 'freejoint')
  def choose(lst):
    if not lst:
      return None, 0, 0
    i = pick % len(lst)
    return lst[i], i, len(lst)
  idx, n = 0, 1
  if feature.startswith('integrator_'):
    opt.set('integrator', {'rk4': 'RK4', 'implicit': 'implicit', 'implicitfast': 'implicitfast'}[feature.split('_')[1]])
  elif feature == 'cone_elliptic':
    opt.set('cone', 'elliptic')
  elif feature == 'wind':
    opt.set('wind', ['1 0 0', '0 0 0.5', '-2 1 0'][pick % 3])
  elif feature == 'impratio':
    opt.set('impratio', ['2', '0.5', '10'][pick % 3])
  elif feature == 'fluid_ellipsoid':
    g, idx, n = choose(geoms)
    if g is None:
      return None
    g.set('fluidshape', 'ellipsoid')
    opt.set('density', '1.2')
  elif feature in ('site_transmission', 'tendon_transmission', 'gain_affine'):
    act = root.find('actuator')
    if act is None:
      act = ET.SubElement(root, 'actuator')
    if feature == 'site_transmission':
      b, idx, n = choose(bodies)
      ET.SubElement(b, 'site', {'name': 'inj_site', 'pos': '0.1 0 0'})
      ET.SubElement(act, 'motor', {'name': 'inj_act', 'site': 'inj_site', 'gear': '1 0 0 0 0 0'})
    elif feature == 'tendon_transmission':
      j, idx, n = choose(joints)
      if j is None:
        return None
      ten = ET.SubElement(root, 'tendon')
      fx = ET.SubElement(ten, 'fixed', {'name': 'inj_tendon'})
      ET.SubElement(fx, 'joint', {'joint': j.get('name'), 'coef': '1'})
      ET.SubElement(act, 'motor', {'name': 'inj_act', 'tendon': 'inj_tendon'})
    else:
      j, idx, n = choose(joints)
      if j is None:
        return None
      ET.SubElement(act, 'general', {'name': 'inj_act', 'joint': j.get('name'), 'gaintype': 'affine', 'gainprm': '1 0.1 0'})
  elif feature == 'joint_ref':
    j, idx, n = choose(joints)
    if j is None:
      return None
    j.set('ref', '0.3')
  elif feature in ('ball', 'ball_limited', 'ball_in_stack'):
    cand = [b for b in bodies if b.find('freejoint') is None]
    b, idx, n = choose(cand)
    if b is None:
      return None
    own = [j for j in list(b) if j.tag == 'joint']
    pos = own[0].get('pos', '0 0 0')
    if feature != 'ball_in_stack':
      for j in own:
        b.remove(j)
    else:
      # MuJoCo allows no rotation joint next to a ball: the stack becomes slides followed by the ball
      for j in own:
        j.set('type', 'slide')
    at = {'name': 'inj_ball', 'type': 'ball', 'pos': pos}
    if feature == 'ball_limited':
      at.update(limited='true', range='0 1')
    if feature == 'ball_in_stack':
      b.insert(list(b).index(own[-1]) + 1, ET.Element('joint', at))
    else:
      b.insert(0, ET.Element('joint', at))
    # actuators on removed joints would dangle
    act = root.find('actuator')
    if act is not None and feature != 'ball_in_stack':
      names = {j.get('name') for j in own}
      for a in list(act):
        if a.get('joint') in names:
          act.remove(a)
      if not list(act):
        root.remove(act)
  elif feature == 'free_stiffness':
    f, idx, n = choose(frees)
    if f is None:
      return None
    f.tag = 'joint'
    f.set('type', 'free')
    f.set('stiffness', '1.5')
  elif feature in ('solmix', 'priority'):
    if len(geoms) < 2:
      return None
    cand = geoms[1:] if feature == 'solmix' else geoms[1:]
    g, idx, n = choose(cand)
    g.set(feature, '2')
  elif feature == 'cylinder':
    b, idx, n = choose(bodies)
    # a cylinder collides with the plane (contype 1, conaffinity 1) whenever either of its two masks is set
    ET.SubElement(b, 'geom', {'name': 'inj_cyl', 'type': 'cylinder', 'size': '0.05 0.1', 'pos': '0 0 0.05',
                              'contype': str(cyl_mask[0]), 'conaffinity': str(cyl_mask[1])})
  elif feature == 'anchor_mismatch':
    cand = [b for b in bodies if len([j for j in list(b) if j.tag == 'joint']) >= 2]
    b, idx, n = choose(cand)
    if b is None:
      return None
    own = [j for j in list(b) if j.tag == 'joint']
    j = own[1 + pick % (len(own) - 1)]
    p = [float(x) for x in j.get('pos', '0 0 0').split()]
    p[pick % 3] += 0.05
    j.set('pos', ' '.join(repr(x) for x in p))
  else:
    raise ValueError(feature)
  return ET.tostring(root, encoding='unicode'), idx, n


def needs(feature):
  """Model class that guarantees an eligible element."""
  if feature in ('free_stiffness',):
    return dict(cls='free_root')
  if feature in ('anchor_mismatch',):
    return dict(cls='stack')
  if feature in ('joint_ref', 'tendon_transmission', 'gain_affine', 'ball', 'ball_limited', 'ball_in_stack'):
    return dict(cls='fixed_root')
  return dict(cls=None)


@st.composite
def cases(draw, feature):
  cls = needs(feature)['cls'] if feature != 'clean' else None
  spec = draw(modelgen.model_spec(PROFILE, cls if cls else draw(st.sampled_from(modelgen.CLASSES))))
  if feature in ('solmix', 'priority'):
    spec['bodies'][0]['geoms'] = (spec['bodies'][0]['geoms'] * 2)[:2]
  if feature == 'cylinder' or draw(st.integers(0, 3)) == 0:
    spec['plane'] = True
    for b in spec['bodies']:
      for g in b['geoms']:
        if g['type'] != 'box':
          g['collide'] = True
  return {'feature': feature, 'spec': spec, 'pick': draw(st.integers(0, 50)), 'eager': draw(st.integers(0, 7)) == 0}


def init_raises(sys, pipeline, eager):
  m = phys.mods()
  jax, jp = m['jax'], m['jp']
  pm = m[pipeline]
  res = {}
  try:
    jax.eval_shape(lambda q, qd: pm.init(sys, q, qd), sys.init_q, jp.zeros(sys.qd_size()))
    res['traced'] = None
  except Exception as e:  # pylint: disable=broad-except
    res['traced'] = type(e).__name__
  if eager:
    try:
      pm.init(sys, sys.init_q, jp.zeros(sys.qd_size()))
      res['eager'] = None
    except Exception as e:  # pylint: disable=broad-except
      res['eager'] = type(e).__name__
  return res


def check(case, ctx=None):
  m = phys.mods()
  jax, jp, mujoco = m['jax'], m['jp'], m['mujoco']
  spec, feature = case['spec'], case['feature']
  if feature == 'cylinder' and 'cyl_mask' not in case:
    # every way a cylinder can collide with the plane (contype 1, conaffinity 1): both masks, contype only, conaffinity only
    out = None
    for mask in ([1, 1], [1, 0], [0, 1]):
      out = check(dict(case, cyl_mask=mask), ctx)
    return out
  xml = modelgen.to_xml(spec)
  if feature != 'clean':
    inj = inject(xml, feature, case['pick'], tuple(case.get('cyl_mask', (1, 1))))
    if inj is None:
      if ctx is not None:
        ctx.count('not_eligible')
      return None
    xml, idx, n_el = inj
  mjm = phys.load_mj(xml)  # MuJoCo itself must accept the document
  eager = case.get('eager', False) and len(spec['bodies']) <= 3
  if feature != 'clean':
    try:
      sys = phys.load_brax(xml)
      stage = 'init'
    except Exception as e:  # pylint: disable=broad-except
      stage, sys = 'loads:' + type(e).__name__, None
    if sys is not None:
      for p in phys.PIPELINES:
        r = init_raises(sys, p, eager)
        for how, exc in r.items():
          if exc is None:
            extra = f', cylinder contype/conaffinity {case.get("cyl_mask")}' if feature == 'cylinder' else ''
            raise Violation('accepted', f'{p}.init ({how}) accepted a model with unsupported feature {feature} '
                            f'(eligible element {idx} of {n_el}{extra})', labels={'check': 'accepted', 'feature': feature, 'pipeline': p, 'how': how})
    return dict(fp=fingerprint([feature, idx, spec]), nontrivial=bool(idx > 0 or n_el == 1 and len(spec['bodies']) >= 2),
                labels=[f'feature:{feature}', f'rejected_at:{stage.split(":")[0]}'] + (['eager_checked'] if eager else []) +
                ([f'cyl_mask:{case.get("cyl_mask")}'] if feature == 'cylinder' else []),
                sample={'feature': feature, 'element': idx, 'eligible': n_el, 'rejected_at': stage,
                        'model': phys.model_summary(spec)})
  # clean model: accepted and consistent
  sys = phys.load_brax(xml)
  for p in phys.PIPELINES:
    r = init_raises(sys, p, eager)
    for how, exc in r.items():
      if exc is not None:
        raise Violation('rejected_clean', f'{p}.init ({how}) raised {exc} on a supported model',
                        labels={'check': 'rejected_clean', 'pipeline': p})
  s = phys.check_structure(sys, spec)
  nb = len(spec['bodies'])
  def expect(name, got, exp):
    if got != exp:
      raise Violation('consistency', f'{name} = {got}, document says {exp}', labels={'check': 'consistency', 'field': name})
  expect('num_links', sys.num_links(), nb)
  expect('link_names', list(sys.link_names), [f'b{i}' for i in range(nb)])
  expect('parents before children', all(int(p) < i for i, p in enumerate(sys.link_parents)), True)
  expect('actuator.q_id', [int(x) for x in np.asarray(sys.actuator.q_id)], s['act_q'])
  expect('actuator.qd_id', [int(x) for x in np.asarray(sys.actuator.qd_id)], s['act_qd'])
  dof_link = [i for i, b in enumerate(spec['bodies']) for _ in range(6 if b['free'] else len(b['joints']))]
  expect('dof_link', [int(x) for x in np.asarray(sys.dof_link())], dof_link)
  ranges, beg = [], 0
  for b in spec['bodies']:
    w = 6 if b['free'] else len(b['joints'])
    ranges.append(list(range(beg, beg + w)))
    beg += w
  expect('dof_ranges', [list(r) for r in sys.dof_ranges()], ranges)
  for typ in sorted(set(s['link_types'])):
    qi, qdi = [], []
    for i, b in enumerate(spec['bodies']):
      if s['link_types'][i] == typ:
        qi += list(range(s['q_adr'][i], s['q_adr'][i] + (7 if b['free'] else len(b['joints']))))
        qdi += list(range(s['qd_adr'][i], s['qd_adr'][i] + (6 if b['free'] else len(b['joints']))))
    expect(f'q_idx({typ})', [int(x) for x in np.asarray(sys.q_idx(typ))], qi)
    expect(f'qd_idx({typ})', [int(x) for x in np.asarray(sys.qd_idx(typ))], qdi)
  init_q = np.asarray(sys.init_q)
  exp_q = np.zeros(s['nq'])
  for i, b in enumerate(spec['bodies']):
    if b['free']:
      exp_q[s['q_adr'][i]:s['q_adr'][i] + 3] = b['pos']
      exp_q[s['q_adr'][i] + 3:s['q_adr'][i] + 7] = b['quat']
  if init_q.shape != exp_q.shape or np.abs(init_q - exp_q).max() > 1e-12:
    raise Violation('consistency', f'init_q = {init_q.tolist()}, document says {exp_q.tolist()}', labels={'check': 'consistency', 'field': 'init_q'})
  # gear / gain / ranges of actuators
  for k, a in enumerate(spec['acts']):
    if abs(float(sys.actuator.gear[k]) - a['gear']) > 1e-12:
      raise Violation('consistency', f'actuator {k} gear {float(sys.actuator.gear[k])} != {a["gear"]}', labels={'check': 'consistency', 'field': 'gear'})
  x, _ = jax.jit(lambda q: m['kinematics'].forward(sys, q, jp.zeros(sys.qd_size())))(sys.init_q)
  d = mujoco.MjData(mjm)
  mujoco.mj_forward(mjm, d)
  ep = np.abs(np.asarray(x.pos) - d.xpos[1:]).max()
  er = phys.quat_diff(np.asarray(x.rot), d.xquat[1:]).max()
  if ctx is not None:
    ctx.residual('init_pose', max(ep, er))
  if not (ep <= 1e-9 and er <= 1e-9):
    raise Violation('init_pose', f'forward kinematics of init_q differs from the document pose by {ep:.2e} / {er:.2e}',
                    labels={'check': 'init_pose'})
  return dict(fp=fingerprint(['clean', spec]), nontrivial=nb >= 2, labels=['feature:clean'] + modelgen.classes(spec) +
              (['eager_checked'] if eager else []),
              sample={'feature': 'clean', 'model': phys.model_summary(spec), 'init_pose_residual': float(max(ep, er))})


INPLACE = ['integrator', 'cone', 'impratio', 'wind']


def check_history(case, ctx=None):
  """Two-step histories: a clean model is accepted by every pipeline, then (a) the same document with a feature injected
  (a new MjModel), then (b) the first MjModel mutated in place, must be rejected - acceptance must not be remembered."""
  m = phys.mods()
  spec = case['spec']
  xml = modelgen.to_xml(spec)
  phys.load_mj(xml)
  sys = phys.load_brax(xml)
  for p_ in phys.PIPELINES:
    if init_raises(sys, p_, False)['traced'] is not None:
      raise Violation('rejected_clean', f'{p_}.init raised on a supported model', labels={'check': 'rejected_clean', 'pipeline': p_})
  feature = case['feature']
  inj = inject(xml, feature, case['pick'], tuple(case.get('cyl_mask', (1, 1))))
  if inj is not None:
    xml2 = inj[0]
    phys.load_mj(xml2)
    del sys
    try:
      sys2 = phys.load_brax(xml2)
    except Exception:  # pylint: disable=broad-except
      sys2 = None
    if sys2 is not None:
      for p_ in phys.PIPELINES:
        if init_raises(sys2, p_, False)['traced'] is None:
          raise Violation('accepted', f'{p_}.init accepted a model with unsupported feature {feature} after having accepted the clean '
                          'version of the same document', labels={'check': 'accepted', 'feature': feature, 'pipeline': p_, 'how': 'after_clean'})
  # in-place mutation of the MjModel the system was built from
  sys = phys.load_brax(xml)
  for p_ in phys.PIPELINES:
    init_raises(sys, p_, False)
  mj = sys.mj_model
  what = case['inplace']
  if what == 'integrator':
    mj.opt.integrator = 1
  elif what == 'cone':
    mj.opt.cone = 1
  elif what == 'impratio':
    mj.opt.impratio = 2.0
  else:
    mj.opt.wind[:] = [1.0, 0.0, 0.0]
  for p_ in phys.PIPELINES:
    if init_raises(sys, p_, False)['traced'] is None:
      raise Violation('accepted', f'{p_}.init accepted a model whose MjModel was switched to an unsupported {what} in place after a first, '
                      'accepted init', labels={'check': 'accepted', 'feature': 'inplace_' + what, 'pipeline': p_, 'how': 'inplace'})
  return dict(fp=fingerprint(['history', feature, what, spec]), nontrivial=True, labels=['history', f'feature:{feature}', f'inplace:{what}'],
              sample={'history': ['clean accepted', f'{feature} injected -> rejected', f'{what} switched in place -> rejected'],
                      'model': phys.model_summary(spec)})


@st.composite
def history_cases(draw):
  feature = draw(st.sampled_from([f for f in FEATURES if needs(f)['cls'] is None]))
  c = draw(cases(feature))
  c['inplace'] = draw(st.sampled_from(INPLACE))
  c['kind'] = 'history'
  return c


def tasks(tier, seed):
  q = tier == 'quick'
  out = []
  feats = FEATURES
  for f in feats:
    out.append({'kind': 'inject', 'feature': f, 'n': 5 if q else 80})
  for _ in range(8):
    out.append({'kind': 'clean', 'n': 5 if q else 80})
  for _ in range(4):
    out.append({'kind': 'history', 'n': 4 if q else 60})
  return out


def run_task(task, ctx):
  if task['kind'] == 'history':
    def hbody(c):
      try:
        return check_history(c, ctx)
      except phys.GeneratorReject:
        ctx.count('generator_rejects')
        return None
    ctx.run_given(history_cases(), hbody, task['n'], task['seed'], check='history', skip_simplest=True)
    return
  feature = task.get('feature', 'clean')
  def body(c):
    try:
      return check(c, ctx)
    except phys.GeneratorReject as e:
      ctx.count('generator_rejects')
      ctx.count('generator_rejects:' + feature)
      if ctx.counters['generator_rejects:' + feature] <= 1:
        ctx.notes.append(f'MuJoCo refused a {feature} document: {str(e)[:160]}')
      return None
  ctx.run_given(cases(feature), body, task['n'], task['seed'], skip_simplest=(feature != 'clean'))


def replay(case, check_name=None):
  if case.get('kind') == 'history' or check_name == 'history':
    check_history(case)
  else:
    check(case)
