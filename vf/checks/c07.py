"""C07 - batching and compilation are transparent; batch members are independent."""

import numpy as np
from hypothesis import strategies as st

from vf import modelgen, phys
from vf.harness import Violation, fingerprint

PROPERTY = 'C07'
X64 = True
SHRINK = {'quick': 4, 'thorough': 25}
RULE = (
    'pipeline: generator models (1 in 4 with colliding geoms and a plane) x B in 2-6 members with independent states/controls x three '
    'pipelines: jit(vmap(init + 2 steps))[i] vs jit(init + 2 steps) on member i; member i bit-identical when all other members are '
    'replaced; eager vs jit on a subsample of small models. scripted: training.wrap(ScriptedEnv, L, r) with 8 members of different '
    'termination schedules over 10-40 wrapped steps: batch vs 8 solo runs of batch size 1, independence under other members\' keys and '
    'actions across episode ends, eager step twice from one state object vs jit. genenv: PipelineEnv built from a generator model with a '
    'drawn termination threshold (batch vs solo vs others-changed), and the DomainRandomizationVmapWrapper with per-member masses, '
    'frictions and gears: every member\'s reset and step equal pipeline.init / pipeline.step on that member\'s own system. bundled: '
    'inverted_pendulum and reacher through training.wrap, batch vs solo. Non-trivial: members pairwise different; for wrapper histories '
    'a member ends an episode while another does not in the same step. Distinct: hash of the case.')
ASSUMPTIONS = ['batch vs solo tolerance 1e-9 relative (1e-6 for spring/positional with contacts); not compared for generalized with contacts, whose iterative constraint solver stops on an error threshold (measured 2e-3 differences between vmap and solo when one more iteration is taken)',
               'independence is asserted bit-exactly (same executable, same lane)', 'brax.v1 stubbed']
TOLERANCES = {'batch_vs_solo': 1e-9, 'batch_vs_solo(contacts)': 1e-6, 'independence': 0.0, 'eager_vs_jit': 1e-9, 'domain_randomization': 1e-9}


# -- family A: pipelines -----------------------------------------------------------------


@st.composite
def pipeline_cases(draw):
  contacts = draw(st.integers(0, 3)) == 0
  if contacts:
    p = modelgen.profile(root='free', collide=True, plane=True, limits='wide', max_bodies=2, gravity='down', actuators='bounded')
  else:
    p = modelgen.profile(limits='wide', max_bodies=4, gravity='any', actuators='any')
  b = draw(st.integers(2, 6))
  c = draw(modelgen.model_and_states(p, k=2 * b, q_range=(-1.0, 1.0), root_pos=(-0.3, 0.6)))
  c.update(family='pipeline', B=b, contacts=contacts, eager=draw(st.integers(0, 5)) == 0, member=draw(st.integers(0, b - 1)))
  return c


def check_pipeline(c, ctx=None):
  m = phys.mods()
  jax, jp = m['jax'], m['jp']
  spec = c['spec']
  xml = modelgen.to_xml(spec)
  phys.load_mj(xml)
  sys = phys.load_brax(xml)
  phys.check_structure(sys, spec)
  q, qd, ctrl = phys.arr_states(c['states'])
  b, i = c['B'], c['member']
  tol = 1e-6 if c['contacts'] else 1e-9
  worst = {}
  for pname in phys.PIPELINES:
    pm = m[pname]
    def f(q_, qd_, c_):
      s = pm.init(sys, q_, qd_)
      out0 = (s.x.pos, s.x.rot, s.xd.vel)
      for _ in range(2):
        s = pm.step(sys, s, c_)
      return {'q': s.q, 'qd': s.qd, 'xp': s.x.pos, 'xr': s.x.rot, 'xdv': s.xd.vel, 'i_xp': out0[0], 'i_xr': out0[1], 'i_xdv': out0[2]}
    fb = jax.jit(jax.vmap(f))
    ob = {k: np.asarray(v) for k, v in fb(jp.array(q[:b]), jp.array(qd[:b]), jp.array(ctrl[:b])).items()}
    os_ = {k: np.asarray(v) for k, v in jax.jit(f)(jp.array(q[i]), jp.array(qd[i]), jp.array(ctrl[i])).items()}
    if not all(np.all(np.isfinite(v)) for v in os_.values()):
      if ctx is not None:
        ctx.count('diverged_not_compared')
      continue
    scale = 1.0 + max(np.abs(os_['xdv']).max(), np.abs(os_['qd']).max() if os_['qd'].size else 0.0)
    # generalized + contacts: the jaxopt projected-gradient solver stops on an error threshold (tol 1e-3); a last-bit
    # difference can add or drop one iteration, which moves the solution by up to ~1e-3: the step is not continuous in
    # its inputs there, so batch-vs-solo equality is not claimed (the independence check below still is, bit for bit)
    solver_active = c['contacts'] and pname == 'generalized'
    if solver_active and ctx is not None:
      ctx.count('solver_active_batch_vs_solo_not_compared')
    for k in ([] if solver_active else os_):
      e = float(np.abs(ob[k][i] - os_[k]).max()) if os_[k].size else 0.0
      worst[f'{pname}_vmap'] = max(worst.get(f'{pname}_vmap', 0.0), e / scale)
      if not e <= tol * scale:
        raise Violation('batch_vs_solo', f'{pname}: member {i} of a vmapped batch of {b} differs from the same member run alone in {k} by {e:.3e}',
                        labels={'check': 'batch_vs_solo', 'pipeline': pname, 'contacts': c['contacts']})
    # others replaced: member i must not notice
    q2, qd2, c2 = q[b:2 * b].copy(), qd[b:2 * b].copy(), ctrl[b:2 * b].copy()
    q2[i], qd2[i], c2[i] = q[i], qd[i], ctrl[i]
    ob2 = {k: np.asarray(v) for k, v in fb(jp.array(q2), jp.array(qd2), jp.array(c2)).items()}
    for k in ob:
      if not np.array_equal(ob[k][i], ob2[k][i], equal_nan=True):
        e = float(np.nanmax(np.abs(ob[k][i] - ob2[k][i])))
        raise Violation('independence', f'{pname}: member {i} changes in {k} by {e:.3e} when the other {b - 1} members are replaced',
                        labels={'check': 'independence', 'pipeline': pname})
    if c['eager'] and len(spec['bodies']) <= 2 and not c['contacts']:
      oe = {k: np.asarray(v) for k, v in f(jp.array(q[i]), jp.array(qd[i]), jp.array(ctrl[i])).items()}
      for k in os_:
        e = float(np.abs(oe[k] - os_[k]).max()) if os_[k].size else 0.0
        worst[f'{pname}_eager'] = max(worst.get(f'{pname}_eager', 0.0), e / scale)
        if not e <= 1e-9 * scale:
          raise Violation('eager_vs_jit', f'{pname}: eager evaluation differs from jit in {k} by {e:.3e}', labels={'check': 'eager_vs_jit', 'pipeline': pname})
  if ctx is not None:
    for n_, v in worst.items():
      ctx.residual(n_, v)
  distinct = len({tuple(np.round(x, 9)) for x in q[:b]}) == b
  return dict(fp=fingerprint(c), nontrivial=bool(distinct), evals=3 * b, labels=['pipeline', 'contacts' if c['contacts'] else 'no_contacts', f'B{b}'] +
              (['eager_checked'] if c['eager'] and len(spec['bodies']) <= 2 and not c['contacts'] else []),
              sample={'family': 'pipeline', 'model': phys.model_summary(spec), 'B': b, 'member': i, 'contacts': c['contacts'], 'worst': worst})


# -- family B: scripted wrappers ---------------------------------------------------------------


@st.composite
def scripted_cases(draw):
  b = 8
  return {'family': 'scripted', 'L': draw(st.integers(2, 12)), 'r': draw(st.sampled_from([1, 1, 2, 3])), 'sticky': draw(st.booleans()),
          'keys': [[draw(st.integers(0, 2**24 - 1)) & draw(st.integers(0, 2**24 - 1)), 0xFFFFFFF0 | i] for i in range(b)],
          'keys2': [[draw(st.integers(0, 2**24 - 1)), 0xFFFFFFF0 | ((i + 3) % 16)] for i in range(b)],
          'actions': draw(st.lists(st.lists(st.integers(0, 3), min_size=b, max_size=b), min_size=10, max_size=40)),
          'member': draw(st.integers(0, b - 1)), 'eager': draw(st.integers(0, 3)) == 0}


def _fields(state):
  return {'obs': np.asarray(state.obs), 'reward': np.asarray(state.reward), 'done': np.asarray(state.done),
          'steps': np.asarray(state.info['steps']), 'truncation': np.asarray(state.info['truncation'])}


def check_scripted(c, ctx=None):
  from vf.checks import c15
  m = c15.mods()
  jax, jp = m['jax'], m['jp']
  jax.config.update('jax_enable_x64', False)  # the scripted env is written for float32 (what the wrappers see in training)
  try:
    return _check_scripted(c, ctx, m, jax, jp, c15)
  finally:
    jax.config.update('jax_enable_x64', True)


def _check_scripted(c, ctx, m, jax, jp, c15):
  b = len(c['keys'])
  env = c15.build_env('wrap', c['L'], c['r'], c['sticky'], b)
  reset, step = jax.jit(env.reset), jax.jit(env.step)
  keys = jp.array(np.array(c['keys'], np.uint32))
  acts = [jp.array(np.array(a, np.float32).reshape(b, 1)) for a in c['actions']]
  hist = []
  s = reset(keys)
  hist.append(_fields(s))
  for a in acts:
    s = step(s, a)
    hist.append(_fields(s))
  i = c['member']
  # solo run of every member through the same wrapper stack (batch size 1)
  mixed = False
  for j in range(b):
    s1 = reset(keys[j:j + 1])
    for t, a in enumerate(acts):
      h = _fields(s1) if t == 0 else None
      s1 = step(s1, a[j:j + 1])
      f1 = _fields(s1)
      for k, v in f1.items():
        if not np.array_equal(v[0], hist[t + 1][k][j]):
          raise Violation('batch_vs_solo', f'scripted env L={c["L"]} r={c["r"]}: member {j} {k} at wrapped step {t} is {hist[t + 1][k][j]} in the batch '
                          f'but {v[0]} when run alone', labels={'check': 'batch_vs_solo', 'family': 'scripted', 'field': k})
  dones = np.array([h['done'] for h in hist[1:]])
  mixed = bool(np.any((dones.max(axis=1) == 1) & (dones.min(axis=1) == 0)))
  # independence across episode ends
  keys2 = np.array(c['keys2'], np.uint32)
  keys2[i] = np.array(c['keys'][i], np.uint32)
  s2 = reset(jp.array(keys2))
  for t, a in enumerate(acts):
    a2 = (3 - np.asarray(a)).astype(np.float32)
    a2[i] = np.asarray(a)[i]
    s2 = step(s2, jp.array(a2))
    f2 = _fields(s2)
    for k, v in f2.items():
      if not np.array_equal(v[i], hist[t + 1][k][i]):
        raise Violation('independence', f'scripted env L={c["L"]} r={c["r"]}: member {i} {k} at wrapped step {t} changes from {hist[t + 1][k][i]} to {v[i]} '
                        f'when the other members get other keys and actions', labels={'check': 'independence', 'family': 'scripted', 'field': k})
  if c['eager']:
    s0 = reset(keys)
    e1 = env.step(s0, acts[0])
    e2 = env.step(s0, acts[0])          # same state object again: stepping must not have modified its input
    j1 = step(s0, acts[0])
    for name, e in (('first eager step', e1), ('second eager step from the same state', e2)):
      fe, fj = _fields(e), _fields(j1)
      for k in fe:
        if not np.array_equal(fe[k], fj[k]):
          raise Violation('eager_vs_jit', f'scripted env L={c["L"]} r={c["r"]}: {name} differs from the jitted step in {k}: {fe[k]} vs {fj[k]}',
                          labels={'check': 'eager_vs_jit', 'family': 'scripted', 'field': k})
  return dict(fp=fingerprint(c), nontrivial=mixed, evals=b * len(acts), labels=['scripted', 'mixed_episode_end' if mixed else 'no_mixed_end'] +
              (['eager_checked'] if c['eager'] else []),
              sample={'family': 'scripted', 'L': c['L'], 'r': c['r'], 'steps': len(acts), 'member': i, 'mixed_episode_end': mixed})


# -- family C: PipelineEnv from a generator model, domain randomisation -------------------------------


def gen_env(m, sys, backend, threshold, qmask):
  jax, jp = m['jax'], m['jp']
  from brax.envs.base import PipelineEnv, State

  class GenEnv(PipelineEnv):
    def reset(self, rng):
      k1, k2 = jax.random.split(rng)
      q = self.sys.init_q + jp.array(qmask) * jax.random.uniform(k1, (self.sys.q_size(),), minval=-0.3, maxval=0.3)
      qd = 0.3 * jax.random.normal(k2, (self.sys.qd_size(),))
      ps = self.pipeline_init(q, qd)
      return State(ps, jp.concatenate([ps.q, ps.qd]), jp.zeros(()), jp.zeros(()), {})

    def step(self, state, action):
      ps = self.pipeline_step(state.pipeline_state, action)
      e = jp.sum(ps.qd ** 2)
      return state.replace(pipeline_state=ps, obs=jp.concatenate([ps.q, ps.qd]), reward=-e,
                           done=jp.where(e > threshold, 1.0, 0.0))
  return GenEnv(sys, backend=backend, n_frames=1)


def scale_obs_wrapper(env):
  """A user wrapper whose reset and step both do something (doubles the observation)."""
  from brax.envs.base import Wrapper

  class ScaleObs(Wrapper):
    def reset(self, rng):
      s = self.env.reset(rng)
      return s.replace(obs=2.0 * s.obs)

    def step(self, state, action):
      s = self.env.step(state, action)
      return s.replace(obs=2.0 * s.obs)
  return ScaleObs(env)


def sys_reader_wrapper(env):
  """A user wrapper that reads the (possibly randomised) System it forwards to: the action is scaled by a function of the
  actuator gears, and the observation is doubled and shifted by the total mass."""
  from brax.envs.base import Wrapper
  from jax import numpy as jp

  class SysReader(Wrapper):
    def _obs(self, s):
      return s.replace(obs=2.0 * s.obs + jp.sum(self.sys.link.inertia.mass))

    def reset(self, rng):
      return self._obs(self.env.reset(rng))

    def step(self, state, action):
      return self._obs(self.env.step(state, action * jp.tanh(self.sys.actuator.gear)))
  return SysReader(env)


@st.composite
def genenv_dr_cases(draw):
  """Domain randomisation with a user wrapper that reads self.sys, on a model that has actuators (by construction)."""
  c = draw(genenv_cases(classes=['actuated', 'fixed_then_free']))
  c.update(dr=True, user_wrapper=True, user_wrapper_kind='sys')
  return c


@st.composite
def genenv_cases(draw, classes=('actuated', 'actuated', 'fixed_then_free', 'stack')):
  p = modelgen.profile(limits='wide', max_bodies=3, gravity='any', actuators='bounded')
  spec = draw(modelgen.model_spec(p, draw(st.sampled_from(list(classes)))))
  b = 4
  nu = len(spec['acts'])
  return {'family': 'genenv', 'spec': spec, 'backend': draw(st.sampled_from(phys.PIPELINES)), 'B': b,
          'threshold': draw(st.sampled_from([0.05, 0.5, 5.0, 1e9])), 'L': draw(st.sampled_from([3, 7, 1000])), 'r': draw(st.sampled_from([1, 2])),
          'key': draw(st.lists(st.integers(0, 2**32 - 1), min_size=2, max_size=2)), 'key2': draw(st.lists(st.integers(0, 2**32 - 1), min_size=2, max_size=2)),
          'actions': draw(st.lists(st.lists(modelgen.fl(-1.0, 1.0), min_size=b * nu, max_size=b * nu), min_size=6, max_size=12)),
          'member': draw(st.integers(0, b - 1)), 'dr': draw(st.booleans()), 'user_wrapper': draw(st.booleans()),
          'user_wrapper_kind': draw(st.sampled_from(['scale', 'sys'])),
          'dr_scale': draw(st.lists(modelgen.fl(0.5, 2.0), min_size=3 * b, max_size=3 * b))}


def qmask_of(spec):
  s = modelgen.structure(spec)
  mask = np.ones(s['nq'])
  for bi, b in enumerate(spec['bodies']):
    if b['free']:
      mask[s['q_adr'][bi] + 3:s['q_adr'][bi] + 7] = 0.0
  return mask


def check_genenv(c, ctx=None):
  from vf.checks import c15
  m15 = c15.mods()
  m = phys.mods()
  jax, jp = m['jax'], m['jp']
  training = m15['training']
  spec = c['spec']
  xml = modelgen.to_xml(spec)
  phys.load_mj(xml)
  sys = phys.load_brax(xml)
  s_ = phys.check_structure(sys, spec)
  b, nu, i = c['B'], s_['nu'], c['member']
  env0 = gen_env(m, sys, c['backend'], c['threshold'], qmask_of(spec))
  obs_scale = 1.0
  reads_sys = bool(c.get('user_wrapper')) and c.get('user_wrapper_kind', 'scale') == 'sys'
  if reads_sys:
    env0, obs_scale = sys_reader_wrapper(env0), 2.0
  elif c.get('user_wrapper'):
    env0, obs_scale = scale_obs_wrapper(env0), 2.0
  # what the sys-reading wrapper must do for a member whose own system is sy
  act_of = (lambda sy, a: a * jp.tanh(sy.actuator.gear)) if reads_sys else (lambda sy, a: a)
  shift_of = (lambda sy: float(jp.sum(sy.link.inertia.mass))) if reads_sys else (lambda sy: 0.0)
  acts = [jp.array(np.array(a, float).reshape(b, nu)) for a in c['actions']]
  keys = jax.random.split(jp.array(np.array(c['key'], np.uint32)), b)
  pm = m[c['backend']]
  worst = {}
  if c['dr']:
    sc = np.array(c['dr_scale'], float).reshape(3, b)
    def rand(sy):
      mass = sy.link.inertia.mass[None] * jp.array(sc[0])[:, None]
      fric = sy.geom_friction[None] * jp.array(sc[1])[:, None, None]
      gear = sy.actuator.gear[None] * jp.array(sc[2])[:, None]
      in_axes = jax.tree_util.tree_map(lambda x: None, sy)
      in_axes = in_axes.tree_replace({'link.inertia.mass': 0, 'geom_friction': 0, 'actuator.gear': 0})
      sys_v = sy.tree_replace({'link.inertia.mass': mass, 'geom_friction': fric, 'actuator.gear': gear})
      return sys_v, in_axes
    env = training.wrap(env0, episode_length=c['L'], action_repeat=1, randomization_fn=rand)
    reset, step = jax.jit(env.reset), jax.jit(env.step)
    st0 = reset(keys)
    st1 = step(st0, acts[0])
    for j in range(b):
      sys_j = sys.tree_replace({'link.inertia.mass': sys.link.inertia.mass * sc[0, j], 'geom_friction': sys.geom_friction * sc[1, j],
                                'actuator.gear': sys.actuator.gear * sc[2, j]})
      ps0 = jax.tree_util.tree_map(lambda x: x[j], st0.pipeline_state)
      ref0 = jax.jit(lambda q_, qd_: pm.init(sys_j, q_, qd_))(ps0.q, ps0.qd)
      ref1 = jax.jit(lambda s__, a_: pm.step(sys_j, s__, a_))(ref0, act_of(sys_j, acts[0][j]))
      got1 = jax.tree_util.tree_map(lambda x: x[j], st1.pipeline_state)
      # observations go through every wrapper between the randomisation wrapper and the base env, at reset too
      for name, st_ in (('reset', st0),) + ((('step', st1),) if float(st1.done[j]) == 0.0 else ()):
        ps_ = jax.tree_util.tree_map(lambda x: x[j], st_.pipeline_state)
        exp_obs = obs_scale * np.concatenate([np.asarray(ps_.q), np.asarray(ps_.qd)]) + shift_of(sys_j)
        if not np.allclose(np.asarray(st_.obs[j]), exp_obs, rtol=1e-12, atol=1e-12):
          raise Violation('domain_randomization', f'{c["backend"]}: member {j} {name} observation {np.asarray(st_.obs[j])[:4]} is not the wrapped env\'s observation '
                          f'{exp_obs[:4]} of its own state (user wrapper between the randomisation wrapper and the base env: {bool(c.get("user_wrapper"))}, reading self.sys: {reads_sys})',
                          labels={'check': 'domain_randomization', 'backend': c['backend'], 'phase': name, 'field': 'obs'})
      phases = [('reset', ps0, ref0)]
      if float(st1.done[j]) == 0.0:  # an ended episode is replaced by the reset state by AutoResetWrapper
        phases.append(('step', got1, ref1))
      for name, got, ref in phases:
        for (path, g), r in zip(jax.tree_util.tree_leaves_with_path(got), jax.tree_util.tree_leaves(ref)):
          g, r = np.asarray(g, float), np.asarray(r, float)
          if g.shape != r.shape:
            raise Violation('domain_randomization', f'{c["backend"]}: member {j} {name} leaf {jax.tree_util.keystr(path)} shape {g.shape} vs {r.shape}')
          e = float(np.nanmax(np.abs(g - r))) if g.size else 0.0
          sc_ = 1.0 + float(np.nanmax(np.abs(r))) if r.size else 1.0
          worst['dr_' + name] = max(worst.get('dr_' + name, 0.0), e / sc_)
          if not e <= 1e-9 * sc_:
            raise Violation('domain_randomization', f'{c["backend"]}: member {j} (mass x{sc[0, j]:.2f}, friction x{sc[1, j]:.2f}, gear x{sc[2, j]:.2f}): '
                            f'{name} state leaf {jax.tree_util.keystr(path)} differs from pipeline.{"init" if name == "reset" else "step"} on that member\'s own system by {e:.3e}',
                            labels={'check': 'domain_randomization', 'backend': c['backend'], 'phase': name})
    labels = ['genenv', 'domain_randomization', 'backend:' + c['backend']] + (['user_wrapper'] if c.get('user_wrapper') else []) + (['user_wrapper_reads_sys'] if reads_sys else [])
    mixed = True
  else:
    env = training.wrap(env0, episode_length=c['L'], action_repeat=c['r'])
    reset, step = jax.jit(env.reset), jax.jit(env.step)
    def run(ks, aa):
      s = reset(ks)
      out = [_fields(s) | {'q': np.asarray(s.pipeline_state.q)}]
      for a in aa:
        s = step(s, a)
        out.append(_fields(s) | {'q': np.asarray(s.pipeline_state.q)})
      return out
    hist = run(keys, acts)
    finite = all(np.all(np.isfinite(h['obs'])) for h in hist)
    dones = np.array([h['done'] for h in hist[1:]])
    mixed = bool(np.any((dones.max(axis=1) == 1) & (dones.min(axis=1) == 0)))
    if finite:
      solo = run(keys[i:i + 1], [a[i:i + 1] for a in acts])
      for t, (hb, hs) in enumerate(zip(hist, solo)):
        for k in hb:
          e = float(np.abs(hb[k][i] - hs[k][0]).max())
          scale = 1.0 + float(np.abs(hs[k][0]).max())
          worst['genenv_solo'] = max(worst.get('genenv_solo', 0.0), e / scale)
          if not e <= 1e-8 * scale:
            raise Violation('batch_vs_solo', f'{c["backend"]} env (L={c["L"]}, r={c["r"]}): member {i} {k} at step {t} differs between the batch and a solo run by {e:.3e}',
                            labels={'check': 'batch_vs_solo', 'family': 'genenv', 'field': k})
      keys2 = jax.random.split(jp.array(np.array(c['key2'], np.uint32)), b).at[i].set(keys[i])
      acts2 = [(-a).at[i].set(a[i]) for a in acts]
      h2 = run(keys2, acts2)
      for t, (hb, hs) in enumerate(zip(hist, h2)):
        for k in hb:
          if not np.array_equal(hb[k][i], hs[k][i], equal_nan=True):
            raise Violation('independence', f'{c["backend"]} env (L={c["L"]}, r={c["r"]}): member {i} {k} at step {t} changes when the other members get other keys/actions',
                            labels={'check': 'independence', 'family': 'genenv', 'field': k})
    elif ctx is not None:
      ctx.count('diverged_not_compared')
    labels = ['genenv', 'wrapped', 'backend:' + c['backend'], 'mixed_episode_end' if mixed else 'no_mixed_end']
  if ctx is not None:
    for n_, v in worst.items():
      ctx.residual(n_, v)
  return dict(fp=fingerprint(c), nontrivial=bool(mixed), evals=b * len(acts), labels=labels,
              sample={'family': 'genenv', 'model': phys.model_summary(spec), 'backend': c['backend'], 'domain_randomization': c['dr'],
                      'L': c['L'], 'r': c['r'], 'threshold': c['threshold'], 'worst': worst})


# -- family D: bundled environments ----------------------------------------------------------------------


@st.composite
def bundled_cases(draw):
  return {'family': 'bundled', 'env': draw(st.sampled_from(['inverted_pendulum', 'reacher'])), 'backend': draw(st.sampled_from(phys.PIPELINES)),
          'L': draw(st.sampled_from([5, 20])), 'key': draw(st.lists(st.integers(0, 2**32 - 1), min_size=2, max_size=2)),
          'key2': draw(st.lists(st.integers(0, 2**32 - 1), min_size=2, max_size=2)), 'nsteps': draw(st.integers(10, 30)), 'member': draw(st.integers(0, 3))}


def check_bundled(c, ctx=None):
  from vf.checks import c15
  m = c15.mods()
  jax, jp = m['jax'], m['jp']
  env = m['training'].wrap(m['envs'].get_environment(c['env'], backend=c['backend']), episode_length=c['L'], action_repeat=1)
  reset, step = jax.jit(env.reset), jax.jit(env.step)
  b, i = 4, c['member']
  keys = jax.random.split(jp.array(np.array(c['key'], np.uint32)), b)
  acts = jax.random.uniform(jp.array(np.array(c['key2'], np.uint32)), (c['nsteps'], b, env.action_size), minval=-1.0, maxval=1.0)
  def run(ks, aa):
    s = reset(ks)
    out = [_fields(s)]
    for a in aa:
      s = step(s, a)
      out.append(_fields(s))
    return out
  hist = run(keys, acts)
  solo = run(keys[i:i + 1], acts[:, i:i + 1])
  for t, (hb, hs) in enumerate(zip(hist, solo)):
    for k in hb:
      e = float(np.abs(hb[k][i] - hs[k][0]).max())
      if not e <= 1e-7 * (1.0 + float(np.abs(hs[k][0]).max())):
        raise Violation('batch_vs_solo', f'{c["env"]}/{c["backend"]} (L={c["L"]}): member {i} {k} at step {t} differs between the batch and a solo run by {e:.3e}',
                        labels={'check': 'batch_vs_solo', 'family': 'bundled', 'field': k})
  keys2 = jax.random.split(jp.array(np.array(c['key2'], np.uint32)), b).at[i].set(keys[i])
  h2 = run(keys2, (-acts).at[:, i].set(acts[:, i]))
  for t, (hb, hs) in enumerate(zip(hist, h2)):
    for k in hb:
      if not np.array_equal(hb[k][i], hs[k][i], equal_nan=True):
        raise Violation('independence', f'{c["env"]}/{c["backend"]} (L={c["L"]}): member {i} {k} at step {t} changes when the other members change',
                        labels={'check': 'independence', 'family': 'bundled', 'field': k})
  dones = np.array([h['done'] for h in hist[1:]])
  mixed = bool(np.any((dones.max(axis=1) == 1) & (dones.min(axis=1) == 0)))
  return dict(fp=fingerprint(c), nontrivial=True, evals=b * c['nsteps'], labels=['bundled', 'env:' + c['env'], 'mixed_episode_end' if mixed else 'no_mixed_end'],
              sample={'family': 'bundled', **{k: c[k] for k in ('env', 'backend', 'L', 'nsteps', 'member')}})


FAMILIES = {'pipeline': (pipeline_cases, check_pipeline), 'scripted': (scripted_cases, check_scripted), 'genenv': (genenv_cases, check_genenv),
            'bundled': (bundled_cases, check_bundled), 'genenv_dr': (genenv_dr_cases, check_genenv)}


def tasks(tier, seed):
  q = tier == 'quick'
  out = []
  for _ in range(6):
    out.append({'kind': 'pipeline', 'n': 1 if q else 20})
  for _ in range(5):
    out.append({'kind': 'genenv', 'n': 2 if q else 30})
  for _ in range(2):
    out.append({'kind': 'genenv_dr', 'n': 1 if q else 10})
  for _ in range(3):
    out.append({'kind': 'scripted', 'n': 6 if q else 120})
  for _ in range(2):
    out.append({'kind': 'bundled', 'n': 1 if q else 10})
  return out


def run_task(task, ctx):
  gen, fn = FAMILIES[task['kind']]
  def body(c):
    try:
      return fn(c, ctx)
    except phys.GeneratorReject:
      ctx.count('generator_rejects')
      return None
  ctx.run_given(gen(), body, task['n'], task['seed'], check=task['kind'], skip_simplest=True)


def replay(case, check_name=None):
  FAMILIES[case.get('family', check_name)][1](case)
