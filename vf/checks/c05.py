"""C05 - physics does not depend on how the scene is represented (rigid transform, sibling order, components)."""

import copy

import numpy as np
from hypothesis import strategies as st

from vf import modelgen, phys
from vf.harness import Violation, fingerprint

PROPERTY = 'C05'
X64 = True
SHRINK = {'quick': 6, 'thorough': 40}
RULE = (
    'rigid: free-rooted contact-free generator models x state x control sequence x rigid transform (uniform random or 90/180 degree '
    'rotation, translation in [-3,3]^3) x 1-5 steps x three pipelines; original and transformed scene go through the SAME compiled '
    'function f(gravity, q, qd, ctrl). order: generator models with >= 3 bodies and a drawn permutation of the siblings at every '
    'level (second document). components: two generator models merged into one document vs each alone. Link results are matched by '
    'body, dof results by joint. Non-trivial: rotation angle > 0.1 rad; permutation not the identity; both components have a '
    'non-free joint. Distinct: hash of the case.')
ASSUMPTIONS = ['spring and positional are asserted on models whose stacks they implement (orthogonal, one kind or slides then one hinge); on other stacks their failures are matched against known finding C05/unsupported-stack (same upstream limitation as C04/rest-unsupported-stack); generalized is asserted on all',
               'half of the generated models use the supported-stack profile so that spring/positional are exercised on claimed ground',
               'trajectories that diverge (|qd| > 1e4 or non-finite) are counted diverged_not_compared',
               'wide limits and no contacts, so that the iterative constraint solver of the generalized pipeline has no active row',
               'generalized pipeline with matrix_inv_iterations = 0 (exact inverse)']
TOLERANCES = {'rigid': '1e-8*(1+scale)', 'order': 1e-9, 'components': 1e-9}


def base_profile(supported=False, **kw):
  d = dict(limits='wide', actuators='any', max_bodies=5, gravity='any')
  if supported:
    d.update(axes='orthogonal', stacks='supported')
  d.update(kw)
  return modelgen.profile(**d)


def run_fn(m, pname, sys, nsteps):
  jax, jp = m['jax'], m['jp']
  pm = m[pname]

  def f(grav, q, qd, ctrl):
    sy = sys.replace(gravity=grav)
    st_ = pm.init(sy, q, qd)
    x0 = st_.x
    for t in range(nsteps):
      st_ = pm.step(sy, st_, ctrl[t % ctrl.shape[0]])
    return {'x0p': x0.pos, 'x0r': x0.rot, 'xp': st_.x.pos, 'xr': st_.x.rot, 'xda': st_.xd.ang, 'xdv': st_.xd.vel, 'q': st_.q, 'qd': st_.qd}
  return jax.jit(f)


def diverged(o):
  return (not all(np.all(np.isfinite(v)) for v in o.values())) or np.abs(o['qd']).max() > 1e4 if o['qd'].size else False


def asymmetric(tag, pname, outs):
  """A well-behaved run (finite, |qd| < 1e2) whose twin is non-finite is a violation, not a divergence to skip."""
  fin = [all(np.all(np.isfinite(v)) for v in o.values()) for o in outs]
  calm = [f and (np.abs(o['qd']).max() < 1e2 if o['qd'].size else True) for f, o in zip(fin, outs)]
  if any(calm) and not all(fin):
    raise Violation(tag, f'{pname}: one representation of the scene stays finite and calm while the other turns non-finite',
                    labels={'check': tag, 'pipeline': pname, 'field': 'finiteness'})


def stack_class(*specs):
  ok = all(modelgen.stack_supported(b) for sp in specs for b in sp['bodies'])
  return 'supported' if ok else 'unsupported'


def rot_np(v, q):
  return modelgen.quat_to_mat(q) @ np.asarray(v, float)


# -- rigid transform -------------------------------------------------------------


@st.composite
def rigid_cases(draw):
  c = draw(modelgen.model_and_states(base_profile(draw(st.booleans()), root='free'), k=3, q_range=(-1.0, 1.0),
                                     cls_list=['stack', 'slide_on_rotated', 'actuated', 'anchor', 'plain']))
  c['g'] = draw(modelgen.unit_quat(identity_p=0.0))
  if c['g'] == [1.0, 0.0, 0.0, 0.0]:
    c['g'] = [0.5, 0.5, 0.5, 0.5]
  c['t'] = draw(modelgen.vec3(-3.0, 3.0))
  c['nsteps'] = draw(st.sampled_from([1, 2, 3, 5]))
  c['family'] = 'rigid'
  return c


def check_rigid(c, ctx=None):
  m = phys.mods()
  jp = m['jp']
  spec = c['spec']
  xml = modelgen.to_xml(spec)
  phys.load_mj(xml)
  sys = phys.load_brax(xml)
  s = phys.check_structure(sys, spec)
  q, qd, ctrl = phys.arr_states(c['states'])
  q0, qd0 = q[0].copy(), qd[0].copy()
  g, t = np.array(c['g']), np.array(c['t'])
  q1, qd1 = q0.copy(), qd0.copy()
  rootmask_q = np.zeros(s['nq'], bool)
  rootmask_qd = np.zeros(s['nv'], bool)
  for bi, b in enumerate(spec['bodies']):
    if b['free']:
      a, d = s['q_adr'][bi], s['qd_adr'][bi]
      q1[a:a + 3] = t + rot_np(q0[a:a + 3], g)
      q1[a + 3:a + 7] = modelgen.quat_mul(g, q0[a + 3:a + 7])
      qd1[d:d + 3] = rot_np(qd0[d:d + 3], g)  # root angular velocity is body-local: unchanged
      rootmask_q[a:a + 7] = True
      rootmask_qd[d:d + 6] = True
  grav0 = np.array(spec['gravity'], float)
  grav1 = rot_np(grav0, g)
  worst = {}
  labels = []
  sclass = stack_class(spec)
  # generalized first: a failure of spring/positional on a stack they do not implement is the recorded known finding and
  # must not hide the generalized comparison
  for pname in phys.PIPELINES:
    f = run_fn(m, pname, sys, c['nsteps'])
    o0 = {k: np.asarray(v) for k, v in f(jp.array(grav0), jp.array(q0), jp.array(qd0), jp.array(ctrl)).items()}
    o1 = {k: np.asarray(v) for k, v in f(jp.array(grav1), jp.array(q1), jp.array(qd1), jp.array(ctrl)).items()}
    asymmetric('rigid', pname, [o0, o1])
    if diverged(o0) or diverged(o1):
      if ctx is not None:
        ctx.count('diverged_not_compared')
      labels.append('diverged:' + pname)
      continue
    scale = 1.0 + max(np.abs(o0['xdv']).max(), np.abs(o0['xda']).max(), np.abs(o0['xp']).max())
    tol = 1e-8 * scale
    def cmp(name, got, exp):
      e = float(np.abs(got - exp).max()) if got.size else 0.0
      worst[f'{pname}_{name}'] = max(worst.get(f'{pname}_{name}', 0.0), e / scale)
      if not e <= tol:
        raise Violation('rigid', f'{pname} after {c["nsteps"]} steps: {name} of the transformed scene differs from the transformed result by {e:.3e} '
                        f'(scale {scale:.2e}); rotation {c["g"]}, translation {c["t"]}',
                        labels={'check': 'rigid', 'pipeline': pname, 'field': name, 'stack_class': sclass if pname != 'generalized' else 'any'})
    rt = lambda p: (modelgen.quat_to_mat(g) @ p.T).T
    cmp('init link position', o1['x0p'], rt(o0['x0p']) + t)
    cmp('link position', o1['xp'], rt(o0['xp']) + t)
    cmp('link linear velocity', o1['xdv'], rt(o0['xdv']))
    cmp('link angular velocity', o1['xda'], rt(o0['xda']))
    exp_rot = np.array([modelgen.quat_mul(g, r) for r in o0['xr']])
    e = float(phys.quat_diff(o1['xr'], exp_rot).max())
    if not e <= tol:
      raise Violation('rigid', f'{pname}: link rotation of the transformed scene differs by {e:.3e}',
                      labels={'check': 'rigid', 'pipeline': pname, 'field': 'rotation', 'stack_class': sclass if pname != 'generalized' else 'any'})
    cmp('non-root q', o1['q'][~rootmask_q], o0['q'][~rootmask_q])
    cmp('non-root qd', o1['qd'][~rootmask_qd], o0['qd'][~rootmask_qd])
    for bi, b in enumerate(spec['bodies']):
      if b['free']:
        a, d = s['q_adr'][bi], s['qd_adr'][bi]
        cmp('root position', o1['q'][a:a + 3], t + rot_np(o0['q'][a:a + 3], g))
        cmp('root linear velocity', o1['qd'][d:d + 3], rot_np(o0['qd'][d:d + 3], g))
        cmp('root angular velocity', o1['qd'][d + 3:d + 6], o0['qd'][d + 3:d + 6])
  if ctx is not None:
    for n_, v in worst.items():
      ctx.residual('rigid_' + n_.split('_')[0], v)
  ang = 2 * np.arccos(min(1.0, abs(g[0])))
  return dict(fp=fingerprint(c), nontrivial=bool(ang > 0.1), evals=3, labels=['rigid', 'stacks_' + sclass] + labels + modelgen.classes(spec),
              sample={'family': 'rigid', 'stack_class': sclass, 'model': phys.model_summary(spec), 'rotation': c['g'], 'translation': c['t'], 'steps': c['nsteps'],
                      'worst_relative': {k: v for k, v in worst.items() if 'position' in k}})


# -- sibling order -----------------------------------------------------------------


def permuted(spec, keys):
  """Re-lists siblings (and roots) in the order given by sort keys; returns (spec2, old->new body index)."""
  nb = len(spec['bodies'])
  children = {i: [] for i in range(-1, nb)}
  for i, b in enumerate(spec['bodies']):
    children[b['parent']].append(i)
  for p in children:
    children[p] = sorted(children[p], key=lambda i: keys[i])
  order = []
  def dfs(i):
    order.append(i)
    for ch in children[i]:
      dfs(ch)
  for r in children[-1]:
    dfs(r)
  new_of = {old: new for new, old in enumerate(order)}
  spec2 = copy.deepcopy(spec)
  spec2['bodies'] = []
  for old in order:
    b = copy.deepcopy(spec['bodies'][old])
    b['parent'] = new_of[b['parent']] if b['parent'] != -1 else -1
    spec2['bodies'].append(b)
  for a in spec2['acts']:
    a['body'] = new_of[a['body']]
  return spec2, new_of


@st.composite
def order_cases(draw):
  c = draw(modelgen.model_and_states(base_profile(draw(st.booleans()), min_bodies=3, max_bodies=6), k=2, q_range=(-1.0, 1.0)))
  nb = len(c['spec']['bodies'])
  c['keys'] = draw(st.permutations(list(range(nb))))
  c['nsteps'] = draw(st.sampled_from([1, 2, 3]))
  c['family'] = 'order'
  return c


def map_state(spec, s1, s2, new_of, q, qd):
  q2, qd2 = np.zeros_like(q), np.zeros_like(qd)
  for old, b in enumerate(spec['bodies']):
    new = new_of[old]
    nq, nv = (7, 6) if b['free'] else (len(b['joints']),) * 2
    q2[s2['q_adr'][new]:s2['q_adr'][new] + nq] = q[s1['q_adr'][old]:s1['q_adr'][old] + nq]
    qd2[s2['qd_adr'][new]:s2['qd_adr'][new] + nv] = qd[s1['qd_adr'][old]:s1['qd_adr'][old] + nv]
  return q2, qd2


def compare_mapped(tag, pname, spec, s1, s2, new_of, o1, o2, tol, labels):
  scale = 1.0 + max(np.abs(o1['xdv']).max(), np.abs(o1['xp']).max(), np.abs(o1['qd']).max() if o1['qd'].size else 0.0)
  worst = 0.0
  for old, b in enumerate(spec['bodies']):
    new = new_of[old]
    for fld in ('x0p', 'xp', 'xda', 'xdv'):
      e = float(np.abs(o1[fld][old] - o2[fld][new]).max())
      worst = max(worst, e / scale)
      if not e <= tol * scale:
        raise Violation(tag, f'{pname}: link b{old} {fld} = {o1[fld][old]} alone/original vs {o2[fld][new]} (diff {e:.3e})', labels=labels)
    e = float(phys.quat_diff(o1['xr'][old], o2['xr'][new]))
    if not e <= tol * scale:
      raise Violation(tag, f'{pname}: link b{old} rotation differs by {e:.3e}', labels=labels)
    nq, nv = (7, 6) if b['free'] else (len(b['joints']),) * 2
    qa, qb = o1['q'][s1['q_adr'][old]:s1['q_adr'][old] + nq], o2['q'][s2['q_adr'][new]:s2['q_adr'][new] + nq]
    if b['free'] and np.dot(qa[3:], qb[3:]) < 0:
      qb = np.concatenate([qb[:3], -qb[3:]])
    e = float(np.abs(qa - qb).max()) if nq else 0.0
    e2 = float(np.abs(o1['qd'][s1['qd_adr'][old]:s1['qd_adr'][old] + nv] - o2['qd'][s2['qd_adr'][new]:s2['qd_adr'][new] + nv]).max()) if nv else 0.0
    worst = max(worst, e / scale, e2 / scale)
    if not max(e, e2) <= tol * scale:
      raise Violation(tag, f'{pname}: joint coordinates of link b{old} differ (q {e:.3e}, qd {e2:.3e})', labels=labels)
  return worst


def check_order(c, ctx=None):
  m = phys.mods()
  jp = m['jp']
  spec = c['spec']
  spec2, new_of = permuted(spec, c['keys'])
  identity = all(new_of[i] == i for i in new_of)
  xml1, xml2 = modelgen.to_xml(spec), modelgen.to_xml(spec2)
  phys.load_mj(xml1)
  phys.load_mj(xml2)
  sys1, sys2 = phys.load_brax(xml1), phys.load_brax(xml2)
  s1, s2 = phys.check_structure(sys1, spec), phys.check_structure(sys2, spec2)
  q, qd, ctrl = phys.arr_states(c['states'])
  q2, qd2 = map_state(spec, s1, s2, new_of, q[0], qd[0])
  grav = np.array(spec['gravity'], float)
  worst = {}
  for pname in phys.PIPELINES:
    o1 = {k: np.asarray(v) for k, v in run_fn(m, pname, sys1, c['nsteps'])(jp.array(grav), jp.array(q[0]), jp.array(qd[0]), jp.array(ctrl)).items()}
    o2 = {k: np.asarray(v) for k, v in run_fn(m, pname, sys2, c['nsteps'])(jp.array(grav), jp.array(q2), jp.array(qd2), jp.array(ctrl)).items()}
    asymmetric('order', pname, [o1, o2])
    if diverged(o1) or diverged(o2):
      if ctx is not None:
        ctx.count('diverged_not_compared')
      continue
    worst[pname] = compare_mapped('order', pname, spec, s1, s2, new_of, o1, o2, 1e-9,
                                  {'check': 'order', 'pipeline': pname, 'stack_class': stack_class(spec) if pname != 'generalized' else 'any'})
  if ctx is not None:
    for n_, v in worst.items():
      ctx.residual('order_' + n_, v)
  return dict(fp=fingerprint(c), nontrivial=not identity, evals=3, labels=['order', 'identity_permutation' if identity else 'permuted'] + modelgen.classes(spec),
              sample={'family': 'order', 'model': phys.model_summary(spec), 'new_index_of_body': [new_of[i] for i in range(len(new_of))],
                      'steps': c['nsteps'], 'worst_relative': worst})


# -- components ------------------------------------------------------------------------


@st.composite
def component_cases(draw):
  pa = base_profile(draw(st.booleans()), max_bodies=3)
  a = draw(modelgen.model_and_states(pa, k=2, q_range=(-1.0, 1.0)))
  b = draw(modelgen.model_and_states(pa, k=2, q_range=(-1.0, 1.0)))
  b['spec']['gravity'] = a['spec']['gravity']
  return {'family': 'components', 'a': a, 'b': b, 'nsteps': draw(st.sampled_from([1, 2, 3]))}


def merged(sa, sb):
  sp = copy.deepcopy(sa)
  off = len(sa['bodies'])
  for b in copy.deepcopy(sb['bodies']):
    if b['parent'] != -1:
      b['parent'] += off
    sp['bodies'].append(b)
  for a in copy.deepcopy(sb['acts']):
    a['body'] += off
    sp['acts'].append(a)
  return sp, off


def check_components(c, ctx=None):
  m = phys.mods()
  jp = m['jp']
  sa, sb = c['a']['spec'], c['b']['spec']
  sab, off = merged(sa, sb)
  xmls = [modelgen.to_xml(x) for x in (sa, sb, sab)]
  for x in xmls:
    phys.load_mj(x)
  sysa, sysb, sysab = [phys.load_brax(x) for x in xmls]
  sta, stb, stab = phys.check_structure(sysa, sa), phys.check_structure(sysb, sb), phys.check_structure(sysab, sab)
  qa, qda, ca = phys.arr_states(c['a']['states'])
  qb, qdb, cb = phys.arr_states(c['b']['states'])
  qab, qdab = np.concatenate([qa[0], qb[0]]), np.concatenate([qda[0], qdb[0]])
  cab = np.concatenate([ca, cb], axis=1)
  grav = np.array(sa['gravity'], float)
  worst = {}
  for pname in phys.PIPELINES:
    oa = {k: np.asarray(v) for k, v in run_fn(m, pname, sysa, c['nsteps'])(jp.array(grav), jp.array(qa[0]), jp.array(qda[0]), jp.array(ca)).items()}
    ob = {k: np.asarray(v) for k, v in run_fn(m, pname, sysb, c['nsteps'])(jp.array(grav), jp.array(qb[0]), jp.array(qdb[0]), jp.array(cb)).items()}
    oab = {k: np.asarray(v) for k, v in run_fn(m, pname, sysab, c['nsteps'])(jp.array(grav), jp.array(qab), jp.array(qdab), jp.array(cab)).items()}
    asymmetric('components', pname, [oa, oab])
    asymmetric('components', pname, [ob, oab])
    if diverged(oa) or diverged(ob) or diverged(oab):
      if ctx is not None:
        ctx.count('diverged_not_compared')
      continue
    wa = compare_mapped('components', pname, sa, sta, stab, {i: i for i in range(len(sa['bodies']))}, oa, oab, 1e-9,
                        {'check': 'components', 'pipeline': pname, 'part': 'first', 'stack_class': stack_class(sa, sb) if pname != 'generalized' else 'any'})
    wb = compare_mapped('components', pname, sb, stb, stab, {i: i + off for i in range(len(sb['bodies']))}, ob, oab, 1e-9,
                        {'check': 'components', 'pipeline': pname, 'part': 'second', 'stack_class': stack_class(sa, sb) if pname != 'generalized' else 'any'})
    worst[pname] = max(wa, wb)
  if ctx is not None:
    for n_, v in worst.items():
      ctx.residual('components_' + n_, v)
  nt = any(not b['free'] for b in sa['bodies']) and any(not b['free'] for b in sb['bodies'])
  return dict(fp=fingerprint(c), nontrivial=bool(nt), evals=3, labels=['components'],
              sample={'family': 'components', 'a': phys.model_summary(sa), 'b': phys.model_summary(sb), 'steps': c['nsteps'], 'worst_relative': worst})


def tasks(tier, seed):
  q = tier == 'quick'
  out = []
  for _ in range(6):
    out.append({'kind': 'rigid', 'n': 2 if q else 30})
  for _ in range(6):
    out.append({'kind': 'order', 'n': 2 if q else 30})
  for _ in range(4):
    out.append({'kind': 'components', 'n': 2 if q else 20})
  return out


FAMILIES = {'rigid': (rigid_cases, check_rigid), 'order': (order_cases, check_order), 'components': (component_cases, check_components)}


def run_task(task, ctx):
  gen, fn = FAMILIES[task['kind']]
  def body(c):
    try:
      return fn(c, ctx)
    except phys.GeneratorReject:
      ctx.count('generator_rejects')
      return None
  ctx.run_given(gen(), body, task['n'], task['seed'], check=task['kind'], skip_simplest=True)


def replay(case, check_name=None):
  FAMILIES[case.get('family', check_name)][1](case)
