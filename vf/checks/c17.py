"""C17 - replay queues vs a list model: exhaustive small scopes + sampled long histories."""

import os

import numpy as np
from hypothesis import strategies as st

from vf.harness import Violation, fingerprint

# sharded wrappers need several host devices; must be set before jax initialises its backend
if 'xla_force_host_platform_device_count' not in os.environ.get('XLA_FLAGS', ''):
  os.environ['XLA_FLAGS'] = ('--xla_force_host_platform_device_count=4 ' + os.environ.get('XLA_FLAGS', '')).strip()

PROPERTY = 'C17'
X64 = False
EXHAUSTIVE = True
RULE = (
    'exhaustive: DFS over all operation sequences {insert k (1<=k<=capacity), sample} up to depth D (quick 5, thorough 7) '
    'for capacity 1-5 x sample batch 1-4 x {plain, cyclic, uniform}; every op is applied to the real queue (jitted '
    'insert_internal/sample_internal + the host-side check_can_* calls of the public API) and to a Python list model; '
    'refused ops leave the state unchanged and are not extended. Sharded: PmapWrapper and PjitWrapper with 2 and 4 forced '
    'host devices, depth 4 (quick 3), capacity 1-3 per shard. sampled: Hypothesis op lists of length <= 40, capacity <= 64, '
    'pytree records, eager public insert/sample as well as jitted internals, oversize inserts. Every DFS node is a distinct '
    'history. Non-trivial: history has an overflow insert after a partial sample, or an insert that exactly fills the queue, '
    'or batch == capacity.')
ASSUMPTIONS = [
    'insert sizes 1..capacity (larger is refused with ValueError, checked in the sampled family); multiples of the shard count for wrappers',
    'uniform queue is only sampled when non-empty (SAC prefills; an empty uniform queue returns zero-initialised storage: excluded_precondition)',
    'record ids start at 1 so zero-initialised storage is never mistaken for a record',
]
TOLERANCES = {'all comparisons': 'exact (integer ids)'}

_c = {}


def rb():
  if not _c:
    import jax
    from jax import numpy as jp
    from brax.training import replay_buffers
    _c.update(jax=jax, jp=jp, rb=replay_buffers)
  return _c


class Model:
  """Reference: a list of held records, capacity n, cursor c."""

  def __init__(self, n, b, kind):
    self.n, self.b, self.kind = n, b, kind
    self.held, self.c = [], 0

  def copy(self):
    m = Model(self.n, self.b, self.kind)
    m.held, m.c = list(self.held), self.c
    return m

  def insert(self, recs):
    self.held += list(recs)
    d = max(0, len(self.held) - self.n)
    if d:
      self.held = self.held[d:]
      self.c = max(0, self.c - d)

  def size(self):
    if self.kind == 'plain':
      return len(self.held) - self.c
    return len(self.held)

  def can_sample(self):
    if self.kind == 'plain':
      return len(self.held) - self.c >= self.b
    if self.kind == 'cyclic':
      return len(self.held) >= self.b
    return len(self.held) > 0

  def sample(self):
    if self.kind == 'plain':
      out = self.held[self.c:self.c + self.b]
      self.c += self.b
      return out
    if self.kind == 'cyclic':
      h = len(self.held)
      out = [self.held[(self.c + i) % h] for i in range(self.b)]
      self.c = (self.c + self.b) % h
      return out
    return None  # uniform: any multiset of held ids


def make_queue(kind, n, b, dummy):
  m = rb()
  if kind == 'uniform':
    return m['rb'].UniformSamplingQueue(n, dummy, b)
  return m['rb'].Queue(n, dummy, b, cyclic=(kind == 'cyclic'))


def compare_state(state, model, where, kind):
  data = np.asarray(state.data)[:, 0]
  ip, sp = int(state.insert_position), int(state.sample_position)
  if ip != len(model.held):
    raise Violation('held_count', f'{where}: queue holds {ip} records, model {len(model.held)}')
  if list(data[:ip]) != model.held:
    raise Violation('held_records', f'{where}: queue holds {list(data[:ip])}, most recent inserted are {model.held}')
  exp_sp = model.c if kind != 'uniform' else 0
  if sp != exp_sp:
    raise Violation('cursor', f'{where}: sample position {sp}, model {exp_sp}')


# ---------------------------------------------------------------------------
# exhaustive DFS (single device)


def dfs_config(kind, n, b, depth, ctx, key_seed):
  m = rb()
  jax, jp = m['jax'], m['jp']
  q = make_queue(kind, n, b, jp.zeros((), jp.int32))
  ins = jax.jit(q.insert_internal)
  smp = jax.jit(q.sample_internal)
  q2 = make_queue(kind, n, b, jp.zeros((), jp.int32)) if kind == 'uniform' else None
  stats = {'nodes': 0, 'nontrivial': 0, 'refused': 0, 'overflow': 0}

  def rec(state, state2, host_size, model, nxt, d, path, flags):
    for op in list(range(1, n + 1)) + ['s']:
      q._size = host_size  # pylint: disable=protected-access
      mod2 = model.copy()
      where = f'{kind} N={n} B={b} ops={path + [op]}'
      fl = dict(flags)
      if op == 's':
        if kind == 'uniform' and not model.held:
          ctx.count('excluded_precondition')
          continue
        try:
          q.check_can_sample(state, 1)
          refused = False
        except ValueError:
          refused = True
        if refused != (not mod2.can_sample()):
          raise Violation('refusal', f'{where}: queue {"refused" if refused else "accepted"} a sample, '
                          f'model has {mod2.size()} available for batch {b}', labels={'kind': kind})
        stats['nodes'] += 1
        if refused:
          stats['refused'] += 1
          if q._size != host_size:  # pylint: disable=protected-access
            raise Violation('refusal_side_effect', f'{where}: refused sample changed the availability counter')
          continue
        new_state, batch = smp(state)
        batch = [int(x) for x in np.asarray(batch)]
        exp = mod2.sample()
        new_state2 = None
        if kind == 'uniform':
          if not set(batch) <= set(mod2.held) or len(batch) != b:
            raise Violation('uniform_membership', f'{where}: sampled {batch}, held {mod2.held}')
          new_state2, batch2 = smp(state2)
          if [int(x) for x in np.asarray(batch2)] != batch:
            raise Violation('uniform_determinism', f'{where}: same key and history, different batches')
        elif batch != exp:
          raise Violation('sample_order', f'{where}: sampled {batch}, expected {exp}', labels={'kind': kind})
        if kind == 'plain' and mod2.c > 0:
          fl['partial'] = True
      else:
        recs = list(range(nxt, nxt + op))
        q.check_can_insert(state, jp.array(recs, jp.int32), 1)
        new_state = ins(state, jp.array(recs, jp.int32))
        new_state2 = ins(state2, jp.array(recs, jp.int32)) if kind == 'uniform' else None
        before = len(mod2.held)
        mod2.insert(recs)
        stats['nodes'] += 1
        if before + op > n:
          stats['overflow'] += 1
          if flags.get('partial') or mod2.c != model.c or kind != 'plain':
            fl['nt'] = True
        if before + op == n:
          fl['nt'] = True
      compare_state(new_state, mod2, where, kind)
      sz = int(q.size(new_state))
      if sz != mod2.size():
        raise Violation('size', f'{where}: size() = {sz}, model {mod2.size()}', labels={'kind': kind})
      if kind != 'uniform' and q._size != (mod2.size() if kind == 'plain' else len(mod2.held)):  # pylint: disable=protected-access
        raise Violation('host_counter', f'{where}: availability counter {q._size}, model {mod2.size()}')  # pylint: disable=protected-access
      if fl.get('nt') or b == n:
        stats['nontrivial'] += 1
      if d + 1 < depth:
        rec(new_state, new_state2, q._size, mod2, nxt + (op if op != 's' else 0), d + 1, path + [op], fl)  # pylint: disable=protected-access

  key = jax.random.PRNGKey(key_seed)
  s0 = q.init(key)
  rec(s0, q.init(key) if kind == 'uniform' else None, 0, Model(n, b, kind), 1, 0, [], {})
  return stats


# ---------------------------------------------------------------------------
# op-list histories (sampled; also sharded wrappers, eager API, pytrees)


def make_record(ids, record, jp):
  ids = jp.array(ids, jp.int32)
  if record == 'scalar':
    return ids
  f = ids.astype(jp.float32)
  return {'id': ids, 'obs': f[:, None, None] * jp.ones((1, 2, 3)) + jp.arange(6.0).reshape(1, 2, 3) / 8.0,
          'r': -f}


def check_record(batch, ids, record, where):
  if record == 'scalar':
    return
  ids = np.array(ids, np.float32)
  obs = np.asarray(batch['obs'])
  exp = ids[:, None, None] + np.arange(6.0, dtype=np.float32).reshape(1, 2, 3) / 8.0
  if obs.shape != exp.shape or not np.array_equal(obs, exp) or not np.array_equal(np.asarray(batch['r']), -ids):
    raise Violation('pytree_roundtrip', f'{where}: record fields do not belong together after un/flatten')


def run_history(c):
  m = rb()
  jax, jp, rbm = m['jax'], m['jp'], m['rb']
  kind, n, b, record, wrapper, dev = c['kind'], c['N'], c['B'], c['record'], c['wrapper'], c['D']
  dummy = make_record([0], record, jp)
  dummy = jax.tree_util.tree_map(lambda x: x[0], dummy)
  inner = make_queue(kind, n, b, dummy)
  if wrapper == 'none':
    q, shards = inner, 1
  elif wrapper == 'pmap':
    if jax.local_device_count() < dev:
      return None
    q, shards = rbm.PmapWrapper(inner, local_device_count=dev), dev
  else:
    if jax.local_device_count() < dev:
      return None
    if c.get('mesh2d') and dev == 2 and jax.local_device_count() >= 4:
      # a (2, 2) mesh of which the buffer is partitioned along 'x' only: 2 shards, replicated along 'y'
      mesh = jax.sharding.Mesh(np.array(jax.devices()[:4]).reshape(2, 2), ('x', 'y'))
    else:
      mesh = jax.sharding.Mesh(np.array(jax.devices()[:dev]), ('x',))
    q, shards = rbm.PjitWrapper(inner, mesh, ('x',)), dev
  key = jax.random.PRNGKey(c['key'])
  state = q.init(key)
  twin = None
  if kind == 'uniform' and wrapper == 'none':
    twin_q = make_queue(kind, n, b, dummy)
    twin = [twin_q, twin_q.init(key)]
  use_jit = c['jit'] and wrapper == 'none'
  if use_jit:
    ins, smp = jax.jit(inner.insert_internal), jax.jit(inner.sample_internal)
  models = [Model(n, b, kind) for _ in range(shards)]
  nxt = 1
  flags = {'nt': b == n, 'overflow_after_partial': False, 'exact_fill': False, 'samples': 0, 'refusals': 0}
  seen_uniform = set()
  for step, op in enumerate(c['ops']):
    where = f'{kind}/{wrapper} N={n} B={b} D={shards} step {step} op={op}'
    if op[0] == 'i':
      k = op[1]
      ids = list(range(nxt, nxt + k * shards))
      recs = make_record(ids, record, jp)
      if k > n:
        try:
          q.insert(state, recs)
          raise Violation('oversize_insert', f'{where}: insert of {k} > capacity {n} per shard accepted')
        except ValueError:
          continue
      if use_jit:
        inner.check_can_insert(state, recs, 1)
        state = ins(state, recs)
      else:
        state = q.insert(state, recs)
      if twin:
        twin[1] = twin[0].insert(twin[1], recs)
      nxt += k * shards
      for s, mo in enumerate(models):
        before, c0 = len(mo.held), mo.c
        mo.insert(ids[s::shards])
        if before + k > n and (c0 > 0 or kind != 'plain'):
          flags['overflow_after_partial'] = True
        if before + k == n:
          flags['exact_fill'] = True
    else:
      if kind == 'uniform' and not models[0].held:
        continue
      can = models[0].can_sample()
      try:
        if use_jit:
          inner.check_can_sample(state, 1)
          new_state, batch = smp(state)
        else:
          new_state, batch = q.sample(state)
        refused = False
      except ValueError:
        refused = True
      if refused != (not can):
        raise Violation('refusal', f'{where}: queue {"refused" if refused else "accepted"}, model has '
                        f'{models[0].size()} per shard for batch {b}', labels={'kind': kind, 'wrapper': wrapper})
      if refused:
        flags['refusals'] += 1
      else:
        state = new_state
        flags['samples'] += 1
        ids = [int(x) for x in np.asarray(batch if record == 'scalar' else batch['id'])]
        if len(ids) != b * shards:
          raise Violation('batch_size', f'{where}: batch of {len(ids)}, expected {b * shards}')
        check_record(batch, ids, record, where)
        if kind == 'uniform':
          for s, mo in enumerate(models):
            if not set(ids[s::shards]) <= set(mo.held):
              raise Violation('uniform_membership', f'{where}: shard {s} returned {ids[s::shards]}, holds {mo.held}',
                              labels={'kind': kind, 'wrapper': wrapper})
          if twin:
            twin[1], b2 = twin[0].sample(twin[1])
            ids2 = [int(x) for x in np.asarray(b2 if record == 'scalar' else b2['id'])]
            if ids2 != ids:
              raise Violation('uniform_determinism', f'{where}: same key and history, different batches')
          seen_uniform.update(ids)
        else:
          exp = [None] * (b * shards)
          for s, mo in enumerate(models):
            exp[s::shards] = mo.sample()
          if ids != exp:
            raise Violation('sample_order', f'{where}: sampled {ids}, expected {exp}',
                            labels={'kind': kind, 'wrapper': wrapper})
    # state agrees with the model after every op
    if wrapper == 'none':
      compare_state_tree(state, models[0], where, kind)
    else:
      for s, mo in enumerate(models):
        sub = jax.tree_util.tree_map(lambda x, s=s: x[s], state)
        compare_state_tree(sub, mo, where + f' shard {s}', kind)
    sz = int(q.size(state))
    if sz != sum(mo.size() for mo in models):
      raise Violation('size', f'{where}: size() = {sz}, model {sum(mo.size() for mo in models)}',
                      labels={'kind': kind, 'wrapper': wrapper})
  # uniform support: after many samples from a final fixed content every held record is reachable
  if kind == 'uniform' and wrapper == 'none' and models[0].held and c.get('support'):
    h = models[0].held
    seen = set()
    st_ = state
    draws = 0
    while draws < 60 * len(h):
      st_, batch = q.sample(st_)
      seen.update(int(x) for x in np.asarray(batch if record == 'scalar' else batch['id']))
      draws += b
    if seen != set(h):
      raise Violation('uniform_support', f'{kind} N={n} B={b}: after {draws} draws saw {sorted(seen)}, holds {h}')
  if wrapper != 'none':
    # PmapWrapper / PjitWrapper build a new pmap/pjit closure on every call, i.e. a new executable per operation;
    # thousands of them exhaust the process' memory mappings (vm.max_map_count) in the thorough tier
    _c['sharded_runs'] = _c.get('sharded_runs', 0) + 1
    if _c['sharded_runs'] % 40 == 0:
      jax.clear_caches()
  nontrivial = bool(flags['nt'] or flags['overflow_after_partial'] or flags['exact_fill'])
  labels = [f'kind:{kind}', f'wrapper:{wrapper}', f'record:{record}', 'jit' if use_jit else 'eager'] + (['pjit_mesh_2x2_partition_x'] if c.get('mesh2d') and wrapper == 'pjit' and dev == 2 else [])
  if flags['overflow_after_partial']:
    labels.append('overflow_after_partial')
  if flags['refusals']:
    labels.append('has_refusal')
  return dict(fp=fingerprint(c), nontrivial=nontrivial, labels=labels, evals=len(c['ops']),
              sample={'kind': kind, 'wrapper': wrapper, 'capacity': n, 'batch': b, 'shards': shards,
                      'record': record, 'ops': [o if o[0] == 's' else f'i{o[1]}' for o in c['ops']][:40],
                      'samples': flags['samples'], 'refusals': flags['refusals']})


def compare_state_tree(state, model, where, kind):
  data = np.asarray(state.data)
  ip, sp = int(state.insert_position), int(state.sample_position)
  if ip != len(model.held):
    raise Violation('held_count', f'{where}: queue holds {ip} records, model {len(model.held)}')
  # the id is a known column of the flattened record: recover it through the first column that
  # reproduces... simpler: ids are stored in every layout as an exactly representable number; find it
  col = _id_col(data.shape[1])
  got = [int(round(float(x))) for x in data[:ip, col]]
  if got != model.held:
    raise Violation('held_records', f'{where}: queue holds {got}, most recent inserted are {model.held}')
  exp_sp = model.c if kind != 'uniform' else 0
  if sp != exp_sp:
    raise Violation('cursor', f'{where}: sample position {sp}, model {exp_sp}')


def _id_col(width):
  # scalar records: width 1 (col 0).  pytree {'id','obs','r'}: ravel_pytree orders dict keys
  # alphabetically -> id first.
  return 0


@st.composite
def histories(draw, wrappers=('none',)):
  kind = draw(st.sampled_from(['plain', 'cyclic', 'uniform']))
  wrapper = draw(st.sampled_from(list(wrappers)))
  dev = 1 if wrapper == 'none' else draw(st.sampled_from([2, 4]))
  n = draw(st.one_of(st.integers(1, 8), st.integers(1, 64))) if wrapper == 'none' else draw(st.integers(1, 6))
  b = draw(st.one_of(st.integers(1, min(n, 8)), st.just(n), st.integers(1, n + 1)))
  nops = draw(st.integers(1, 40 if wrapper == 'none' else 12))
  ins = st.one_of(st.integers(1, n), st.sampled_from([1, n, max(1, n - 1), n + 1]), st.integers(1, max(1, min(n, b + 1))))
  op = st.one_of(st.tuples(st.just('i'), ins), st.tuples(st.just('s')), st.tuples(st.just('s')))
  ops = [list(o) for o in draw(st.lists(op, min_size=nops, max_size=nops))]
  return {'kind': kind, 'wrapper': wrapper, 'D': dev, 'N': n, 'B': b,
          'record': draw(st.sampled_from(['scalar', 'pytree'])), 'jit': draw(st.booleans()),
          'key': draw(st.integers(0, 2**31 - 1)), 'ops': ops, 'support': draw(st.booleans()),
          'mesh2d': draw(st.booleans()) if wrapper == 'pjit' and dev == 2 else False}


# ---------------------------------------------------------------------------


def tasks(tier, seed):
  q = tier == 'quick'
  depth = 5 if q else 7
  out = []
  for n in (5, 4, 3, 2, 1):
    for b in (1, 2, 3, 4):
      for kind in ('plain', 'cyclic', 'uniform'):
        out.append({'kind': 'dfs', 'qkind': kind, 'N': n, 'B': b, 'depth': depth})
  out.sort(key=lambda t: -(t['N'] + 1) ** t['depth'])
  sh_depth = 3 if q else 4
  sharded = []
  for wrapper in ('pmap', 'pjit'):
    for dev in (2, 4):
      for qk in ('plain', 'cyclic', 'uniform'):
        sharded.append({'kind': 'dfs_sharded', 'wrapper': wrapper, 'D': dev, 'depth': sh_depth, 'qkind': qk,
                        'caps': [1, 2] if q else [1, 2, 3]})
  out = sharded + out  # slow (pmap/pjit retrace on every call): start them first
  for _ in range(8):
    out.append({'kind': 'history', 'n': 40 if q else 600})
  for _ in range(4):
    out.append({'kind': 'history_sharded', 'n': 12 if q else 150})
  return out


def dfs_sharded(task, ctx):
  """All op sequences for the wrappers, expressed as histories so the same oracle runs."""
  import itertools
  wrapper, dev, depth = task['wrapper'], task['D'], task['depth']
  total = nt = 0
  for kind in (task['qkind'],):
    for n in task['caps']:
      for b in (1, 2):
        alphabet = [['i', k] for k in range(1, n + 1)] + [['s']]
        for ops in itertools.product(alphabet, repeat=depth):
          if ctx.out_of_time():
            ctx.count('budget_skipped')
            return total, nt
          c = {'kind': kind, 'wrapper': wrapper, 'D': dev, 'N': n, 'B': b, 'record': 'scalar', 'jit': False,
               'key': 0, 'ops': [list(o) for o in ops], 'support': False}
          try:
            info = run_history(c)
          except Violation as v:
            ctx.violation(c, v, check='history')
            return total, nt
          if info is None:
            ctx.count('skipped_no_devices')
            return total, nt
          total += 1
          nt += bool(info['nontrivial'])
          if total % 500 == 1:
            ctx.record(fp=None, labels=[f'sharded:{wrapper}:{dev}'], sample=info['sample'], evals=0)
            ctx.programs -= 1
  return total, nt


def run_task(task, ctx):
  k = task['kind']
  if k == 'dfs':
    try:
      stats = dfs_config(task['qkind'], task['N'], task['B'], task['depth'], ctx, key_seed=task['seed'] % (2**31))
    except Violation as v:
      ctx.violation({'dfs': {kk: task[kk] for kk in ('qkind', 'N', 'B', 'depth')}, 'key_seed': task['seed'] % (2**31),
                     'detail': v.detail}, v, check='dfs')
      return
    ctx.enum(stats['nodes'], stats['nodes'], stats['nontrivial'])
    ctx.count('dfs_refused_ops', stats['refused'])
    ctx.count('dfs_overflow_inserts', stats['overflow'])
    ctx.record(fp=None, labels=[f'dfs:{task["qkind"]}'], evals=0,
               sample={'exhaustive_config': {kk: task[kk] for kk in ('qkind', 'N', 'B', 'depth')}, **stats})
    ctx.programs -= 1
  elif k == 'dfs_sharded':
    total, nt = dfs_sharded(task, ctx)
    ctx.enum(total, total, nt)
  elif k == 'history':
    ctx.run_given(histories(('none',)), run_history, task['n'], task['seed'], check='history')
  else:
    ctx.run_given(histories(('pmap', 'pjit')), run_history, task['n'], task['seed'], check='history')


def replay(case, check=None):
  if 'dfs' in case:
    class _Ctx:
      def count(self, *a, **k):
        pass
      def out_of_time(self):
        return False
    d = case['dfs']
    dfs_config(d['qkind'], d['N'], d['B'], d['depth'], _Ctx(), key_seed=case.get('key_seed', 0))
  else:
    run_history(case)
