"""C19 - compute_gae equals the GAE defining sum, carries no gradient, columns independent."""

import numpy as np
from hypothesis import strategies as st

from vf.harness import Violation, fingerprint

PROPERTY = 'C19'
X64 = True
RULE = (
    'T in 1..12, B in 1..4; rewards/values/bootstrap floats in [-5,5] (plus 0, +-1, +-5); per step and '
    'column a mask symbol from {none, term, trunc} drawn with a per-case pattern (random, all-zero, all-term, '
    'all-trunc, last-step-term, last-step-trunc, consecutive ends); lambda, discount in [0,1] with 0 and 1 '
    'over-sampled. Oracle: NumPy double sum from the definition. ppo_loss family: the same batches pushed through compute_ppo_loss with stub '
    'networks (v_loss and policy_loss pin the masks, reward scaling and bootstrap it hands to the estimator). Non-trivial: a termination or truncation '
    'strictly inside the trajectory (t < T-1) and lambda, discount in (0,1). Distinct: hash of the whole case.')
ASSUMPTIONS = ['masks are 0/1 floats and mutually exclusive per step (what the PPO trainer produces)',
               'float64 (jax_enable_x64); tolerance 1e-10 relative to 1+max|expected|']
TOLERANCES = {'value_targets': 1e-10, 'advantages': 1e-10, 'gradient': 0.0, 'column_independence': 0.0}

_cache = {}


def gae():
  if 'f' not in _cache:
    from vf.stubs import stub_v1
    stub_v1()
    from brax.training.agents.ppo import losses
    import jax
    from jax import numpy as jp
    raw = losses.compute_gae
    _cache['raw'] = raw
    _cache['f'] = jax.jit(lambda tr, te, r, v, b, lam, g: raw(tr, te, r, v, b, lam, g))

    def loss(r, v, b, tr, te, lam, g, w, which):
      out = raw(tr, te, r, v, b, lam, g)
      return jp.sum(out[which] * w) + jp.sum(out[which])
    _cache['grad'] = jax.jit(jax.grad(loss, argnums=(0, 1, 2)), static_argnums=(8,))
  return _cache['f']


def reference(trunc, term, r, v, boot, lam, g):
  """GAE straight from its definition (double sum, no recursion)."""
  t_len, b_len = r.shape
  vnext = np.concatenate([v[1:], boot[None]], 0)
  delta = (r + g * (1 - term) * vnext - v) * (1 - trunc)
  acc = np.zeros_like(r)
  for b in range(b_len):
    for t in range(t_len):
      s = 0.0
      for k in range(t, t_len):
        w = (g * lam) ** (k - t)
        for j in range(t, k):
          w *= (1 - term[j, b]) * (1 - trunc[j, b])
        s += w * delta[k, b]
      acc[t, b] = s
  vs = v + acc
  vsn = np.concatenate([vs[1:], boot[None]], 0)
  adv = (r + g * (1 - term) * vsn - v) * (1 - trunc)
  return vs, adv


def _val():
  return st.one_of(st.floats(-5, 5, allow_nan=False, width=64),
                   st.sampled_from([0.0, 1.0, -1.0, 5.0, -5.0]))


def _unit():
  return st.one_of(st.floats(0, 1, allow_nan=False, width=64), st.sampled_from([0.0, 1.0, 0.5, 0.95, 0.99]))


@st.composite
def cases(draw):
  t_len = draw(st.integers(1, 12))
  b_len = draw(st.integers(1, 4))
  mat = lambda e: draw(st.lists(st.lists(e, min_size=b_len, max_size=b_len), min_size=t_len, max_size=t_len))
  pattern = draw(st.sampled_from(['random', 'random', 'random', 'sparse', 'none', 'all_term', 'all_trunc',
                                  'last_term', 'last_trunc', 'consecutive']))
  if pattern == 'random':
    masks = mat(st.sampled_from([0, 0, 1, 2]))
  elif pattern == 'sparse':
    masks = mat(st.sampled_from([0, 0, 0, 0, 0, 0, 1, 2]))
  elif pattern == 'none':
    masks = [[0] * b_len for _ in range(t_len)]
  elif pattern == 'all_term':
    masks = [[1] * b_len for _ in range(t_len)]
  elif pattern == 'all_trunc':
    masks = [[2] * b_len for _ in range(t_len)]
  elif pattern == 'last_term':
    masks = [[0] * b_len for _ in range(t_len - 1)] + [[1] * b_len]
  elif pattern == 'last_trunc':
    masks = [[0] * b_len for _ in range(t_len - 1)] + [[2] * b_len]
  else:
    masks = [[0] * b_len for _ in range(t_len)]
    k = draw(st.integers(0, max(0, t_len - 2)))
    a, b = draw(st.sampled_from([(1, 1), (1, 2), (2, 1), (2, 2)]))
    for col in range(b_len):
      masks[k][col] = a
      if k + 1 < t_len:
        masks[k + 1][col] = b
  return {
      'T': t_len, 'B': b_len, 'pattern': pattern, 'masks': masks,
      'rewards': mat(_val()), 'values': mat(_val()),
      'bootstrap': draw(st.lists(_val(), min_size=b_len, max_size=b_len)),
      'lam': draw(_unit()), 'disc': draw(_unit()),
      'wv': mat(st.floats(-1, 1, allow_nan=False, width=64)),
      'col': draw(st.integers(0, b_len - 1)),
  }


def check(c):
  import jax
  from jax import numpy as jp
  f = gae()
  m = np.array(c['masks'], dtype=np.int64).reshape(c['T'], c['B'])
  term = (m == 1).astype(np.float64)
  trunc = (m == 2).astype(np.float64)
  r = np.array(c['rewards'], float).reshape(c['T'], c['B'])
  v = np.array(c['values'], float).reshape(c['T'], c['B'])
  boot = np.array(c['bootstrap'], float)
  lam, g = float(c['lam']), float(c['disc'])
  vs, adv = f(jp.array(trunc), jp.array(term), jp.array(r), jp.array(v), jp.array(boot), lam, g)
  vs, adv = np.asarray(vs), np.asarray(adv)
  evs, eadv = reference(trunc, term, r, v, boot, lam, g)
  if vs.shape != evs.shape or adv.shape != eadv.shape:
    raise Violation('shape', f'shapes {vs.shape} {adv.shape} expected {evs.shape}')
  res_vs = np.max(np.abs(vs - evs)) / (1 + np.max(np.abs(evs)))
  res_adv = np.max(np.abs(adv - eadv)) / (1 + np.max(np.abs(eadv)))
  if not res_vs <= 1e-10:
    t, b = np.unravel_index(np.argmax(np.abs(vs - evs)), vs.shape)
    raise Violation('value_targets', f'vs[{t},{b}]={vs[t, b]!r} expected {evs[t, b]!r} (T={c["T"]}, pattern={c["pattern"]})')
  if not res_adv <= 1e-10:
    t, b = np.unravel_index(np.argmax(np.abs(adv - eadv)), adv.shape)
    raise Violation('advantages', f'adv[{t},{b}]={adv[t, b]!r} expected {eadv[t, b]!r} (T={c["T"]}, pattern={c["pattern"]})')
  # no gradient through either output
  w = np.array(c['wv'], float).reshape(c['T'], c['B'])
  for which in (0, 1):
    gr = _cache['grad'](jp.array(r), jp.array(v), jp.array(boot), jp.array(trunc), jp.array(term),
                        lam, g, jp.array(w), which)
    gmax = max(float(jp.max(jp.abs(x))) for x in gr)
    if gmax != 0.0:
      raise Violation('gradient', f'output {"vs" if which == 0 else "advantages"} carries gradient {gmax!r}')
  # columns independent: rewrite every other column, column `col` must be bit-identical
  if c['B'] > 1:
    col = c['col']
    keep = np.zeros(c['B'], bool)
    keep[col] = True
    r2 = np.where(keep, r, -r[::-1] + 0.37)
    v2 = np.where(keep, v, v[::-1] * 0.5 - 1.0)
    b2 = np.where(keep, boot, boot + 1.0)
    te2 = np.where(keep, term, 1 - np.maximum(term, trunc))
    tr2 = np.where(keep, trunc, 0.0)
    vs2, adv2 = f(jp.array(tr2), jp.array(te2), jp.array(r2), jp.array(v2), jp.array(b2), lam, g)
    if not (np.array_equal(np.asarray(vs2)[:, col], vs[:, col]) and np.array_equal(np.asarray(adv2)[:, col], adv[:, col])):
      raise Violation('column_independence', f'column {col} changed when the other columns were rewritten')
  inside = bool(np.any(m[:-1] != 0)) if c['T'] > 1 else False
  nontrivial = inside and 0 < lam < 1 and 0 < g < 1
  labels = ['pattern:' + c['pattern']]
  if lam in (0.0, 1.0):
    labels.append('lambda_endpoint')
  if g in (0.0, 1.0):
    labels.append('discount_endpoint')
  if np.any(m[-1] == 1):
    labels.append('last_step_termination')
  if inside and np.any(m[:-1] == 2):
    labels.append('inner_truncation')
  return dict(fp=fingerprint(c), nontrivial=nontrivial, labels=labels,
              sample={'T': c['T'], 'B': c['B'], 'masks(0 none,1 term,2 trunc)': c['masks'], 'lambda': lam,
                      'discount': g, 'rewards': c['rewards'], 'values': c['values'], 'bootstrap': c['bootstrap'],
                      'residual_vs': float(res_vs), 'residual_adv': float(res_adv)}), float(res_vs), float(res_adv)


# -- through compute_ppo_loss: the masks, reward scaling and bootstrap that the PPO loss feeds into the estimator ----------


@st.composite
def ppo_cases(draw):
  c = draw(cases())
  c['reward_scaling'] = draw(st.sampled_from([1.0, 0.1, 5.0, 1.0]))
  c['raw_action'] = draw(st.lists(st.lists(st.floats(-2, 2, allow_nan=False, width=64), min_size=c['B'], max_size=c['B']),
                                  min_size=c['T'], max_size=c['T']))
  c['next_values'] = draw(st.lists(st.lists(_val(), min_size=c['B'], max_size=c['B']), min_size=c['T'], max_size=c['T']))
  c['family'] = 'ppo_loss'
  return c


def check_ppo_loss(c):
  """compute_ppo_loss with stub networks (value = first observation feature, constant policy logits, behaviour log-prob
  equal to the target's, no advantage normalisation, no entropy cost): then v_loss = 0.25 mean((vs - V)^2) and
  policy_loss = -mean(advantages), which pins the masks, reward scaling and bootstrap value it hands to the estimator."""
  import jax
  from jax import numpy as jp
  gae()
  from brax.training import distribution, networks
  from brax.training.agents.ppo import losses
  from brax.training.agents.ppo import networks as ppo_networks
  from brax.training.types import Transition
  t_len, b_len = c['T'], c['B']
  m = np.array(c['masks'], dtype=np.int64).reshape(t_len, b_len)
  term, trunc = (m == 1).astype(np.float64), (m == 2).astype(np.float64)
  r = np.array(c['rewards'], float).reshape(t_len, b_len)
  v = np.array(c['values'], float).reshape(t_len, b_len)
  nv = np.array(c['next_values'], float).reshape(t_len, b_len)
  # a trajectory: next value of step t is the value of step t+1 unless the episode ended there
  nv[:-1] = np.where((m[:-1] == 0), v[1:], nv[:-1])
  boot = nv[-1]
  raw = np.array(c['raw_action'], float).reshape(t_len, b_len, 1)
  lam, g, rs = float(c['lam']), float(c['disc']), float(c['reward_scaling'])
  dist = distribution.NormalTanhDistribution(event_size=1)
  scale = np.logaddexp(0.0, 0.0) + 0.001
  x = raw[..., 0]
  ldj = 2.0 * (np.log(2.0) - np.abs(x) - np.log1p(np.exp(-2.0 * np.abs(x))))
  logp = -0.5 * (x / scale) ** 2 - 0.5 * np.log(2 * np.pi) - np.log(scale) - ldj
  pol = networks.FeedForwardNetwork(init=lambda k: None, apply=lambda n_, p_, obs: jp.zeros(obs.shape[:-1] + (2,)))
  val = networks.FeedForwardNetwork(init=lambda k: None, apply=lambda n_, p_, obs: obs[..., 0] * p_)
  net = ppo_networks.PPONetworks(policy_network=pol, value_network=val, parametric_action_distribution=dist)
  bt = lambda a: jp.array(np.swapaxes(a, 0, 1))   # [T, B, ...] -> [B, T, ...]
  obs = np.stack([v, np.zeros_like(v)], -1)
  nobs = np.stack([nv, np.zeros_like(v)], -1)
  data = Transition(observation=bt(obs), action=bt(np.tanh(raw)), reward=bt(r), discount=bt(1.0 - np.maximum(term, trunc)),
                    next_observation=bt(nobs),
                    extras={'state_extras': {'truncation': bt(trunc)}, 'policy_extras': {'log_prob': bt(logp), 'raw_action': bt(raw)}})
  params = losses.PPONetworkParams(policy=jp.zeros(()), value=jp.ones(()))
  _, met = losses.compute_ppo_loss(params, None, data, jax.random.PRNGKey(0), net, entropy_cost=0.0, discounting=g,
                                   reward_scaling=rs, gae_lambda=lam, clipping_epsilon=0.3, normalize_advantage=False)
  evs, eadv = reference(trunc, term, r * rs, v, boot, lam, g)
  exp_v = 0.25 * np.mean((evs - v) ** 2)
  exp_p = -np.mean(eadv)
  got_v, got_p = float(met['v_loss']), float(met['policy_loss'])
  if not abs(got_v - exp_v) <= 1e-9 * (1 + abs(exp_v)):
    raise Violation('ppo_value_targets', f'compute_ppo_loss v_loss {got_v!r}, expected {exp_v!r} from the defining sum (T={t_len}, B={b_len}, '
                    f'reward_scaling={rs}, pattern={c["pattern"]}): the value targets inside the PPO loss are not the estimator\'s',
                    labels={'check': 'ppo_value_targets'})
  if not abs(got_p - exp_p) <= 1e-9 * (1 + abs(exp_p)):
    raise Violation('ppo_advantages', f'compute_ppo_loss policy_loss {got_p!r}, expected -mean(advantages) = {exp_p!r} (T={t_len}, B={b_len}, '
                    f'reward_scaling={rs}, pattern={c["pattern"]})', labels={'check': 'ppo_advantages'})
  inside = bool(np.any(m[:-1] != 0)) if t_len > 1 else False
  return dict(fp=fingerprint(c), nontrivial=bool(inside and 0 < lam < 1 and 0 < g < 1), labels=['ppo_loss', 'pattern:' + c['pattern'], f'reward_scaling:{rs}'],
              sample={'family': 'ppo_loss', 'T': t_len, 'B': b_len, 'reward_scaling': rs, 'lambda': lam, 'discount': g,
                      'masks(0 none,1 term,2 trunc)': c['masks'], 'v_loss': got_v, 'policy_loss': got_p})


def tasks(tier, seed):
  n = 250 if tier == 'quick' else 4000
  return [{'kind': 'gae', 'n': n} for _ in range(12)] + [{'kind': 'ppo_loss', 'n': 150 if tier == 'quick' else 2500} for _ in range(4)]


def run_task(task, ctx):
  if task['kind'] == 'ppo_loss':
    ctx.run_given(ppo_cases(), check_ppo_loss, task['n'], task['seed'], check='ppo_loss')
    return

  def body(c):
    info, a, b = check(c)
    ctx.residual('value_targets', a)
    ctx.residual('advantages', b)
    return info
  ctx.run_given(cases(), body, task['n'], task['seed'])


def replay(case, check_name=None):
  if case.get('family') == 'ppo_loss' or check_name == 'ppo_loss':
    check_ppo_loss(case)
  else:
    check(case)
