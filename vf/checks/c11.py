"""C11 - actuator.to_tau equals MuJoCo's actuator force; monotone, saturating, additive, zero elsewhere."""

import copy

import numpy as np
from hypothesis import strategies as st

from vf import modelgen, phys
from vf.harness import Violation, fingerprint

PROPERTY = 'C11'
X64 = True
SHRINK = {'quick': 15, 'thorough': 80}
RULE = (
    'generator models built to carry 1-10 actuators of mixed kind (motor / position(kp[,kv]) / velocity(kv)), several per joint, '
    'on hinge and slide joints anywhere in a stack, positive and negative gear, with and without ctrl/force ranges (plus the '
    'nu = 0 case) x K states x controls in [-3,3]^nu; for the first states the controls are moved exactly onto each ctrlrange '
    'bound and 0.1 beyond it. Oracle A: MuJoCo qfrc_actuator. Oracle B (independent of MuJoCo): monotone in each control with the '
    'sign of gain*gear, other dofs bit-identical, constant beyond the range, sum of single-actuator documents. Non-trivial: '
    'nu >= 1 and an actuator with a range or a bias. Distinct: hash of (topology, actuators, rounded q, qd, ctrl).')
ASSUMPTIONS = ['MuJoCo is the reference for oracle A', 'gain > 0 (kp, kv > 0) as generated; the sign of the slope is the sign of gear']
TOLERANCES = {'vs_mujoco': 1e-9, 'additivity': 1e-12, 'saturation': 1e-12, 'locality': 1e-12, 'unactuated_dof': 0.0}
FLOORS = {'two_actuators_one_joint': 0.3, 'actuator_on_slide': 0.3, 'actuator_range_or_bias': 0.5}
PROFILE = modelgen.profile(limits='some', max_bodies=5, limit_flags=True)


def floors(labels, programs, tier):
  return phys.floors_report(labels, programs, FLOORS)


@st.composite
def cases(draw, k):
  cls = draw(st.sampled_from(['actuated'] * 6 + ['plain']))
  spec = draw(modelgen.model_spec(PROFILE, cls))
  if cls == 'plain' and draw(st.booleans()):
    spec['acts'] = []
  # force the interesting actuator classes by construction
  slots = [(bi, ji) for bi, b in enumerate(spec['bodies']) for ji in range(len(b['joints']))]
  if spec['acts'] and slots:
    mode = draw(st.sampled_from(['dup', 'slide', 'asis']))
    if mode == 'dup' and len(spec['acts']) < 10:
      a = copy.deepcopy(draw(st.sampled_from(spec['acts'])))
      a['kind'] = draw(st.sampled_from(['motor', 'position', 'velocity']))
      a.pop('kp', None), a.pop('kv', None)
      if a['kind'] == 'position':
        a['kp'] = draw(modelgen.fl(1.0, 50.0))
      if a['kind'] == 'velocity':
        a['kv'] = draw(modelgen.fl(0.1, 5.0))
      spec['acts'].append(a)
    elif mode == 'slide':
      sl = [(bi, ji) for bi, ji in slots if spec['bodies'][bi]['joints'][ji]['type'] == 'slide']
      if sl:
        bi, ji = draw(st.sampled_from(sl))
        spec['acts'][0]['body'], spec['acts'][0]['joint'] = bi, ji
  states = draw(modelgen.states(spec, k, ctrl_range=(-3.0, 3.0)))
  return {'spec': spec, 'states': states}


def check(case, ctx=None):
  m = phys.mods()
  jax, jp, mujoco = m['jax'], m['jp'], m['mujoco']
  spec, states = case['spec'], case['states']
  xml = modelgen.to_xml(spec)
  mjm = phys.load_mj(xml)
  sys = phys.load_brax(xml)
  s = phys.check_structure(sys, spec)
  q, qd, ctrl = phys.arr_states(states)
  k, nu, nv = q.shape[0], s['nu'], s['nv']
  ctrl = ctrl.copy()
  # controls exactly on / beyond the bounds
  ranged = [(j, a['ctrlrange']) for j, a in enumerate(spec['acts']) if a.get('ctrlrange') is not None]
  for j, r in ranged:
    if k > 0:
      ctrl[0, j] = r[1]
    if k > 1:
      ctrl[1, j] = r[0]
    if k > 2:
      ctrl[2, j] = r[1] + 0.1
    if k > 3:
      ctrl[3, j] = r[0] - 0.1
  tt = jax.jit(jax.vmap(lambda c, a, b: m['actuator'].to_tau(sys, c, a, b)))
  tau = np.asarray(tt(jp.array(ctrl), jp.array(q), jp.array(qd)))
  if tau.shape != (k, nv):
    raise Violation('shape', f'to_tau shape {tau.shape}, expected {(k, nv)}')
  d = mujoco.MjData(mjm)
  actuated = sorted(set(s['act_qd']))
  worst = 0.0
  for i in range(k):
    phys.mj_set(mjm, d, q[i], qd[i], ctrl[i])
    mujoco.mj_forward(mjm, d)
    r = phys.rel(tau[i], d.qfrc_actuator)
    worst = max(worst, r)
    if not r <= 1e-9:
      j = int(np.argmax(np.abs(tau[i] - d.qfrc_actuator)))
      raise Violation('vs_mujoco', f'state {i}: joint force on dof {j} = {tau[i][j]!r}, MuJoCo qfrc_actuator {d.qfrc_actuator[j]!r} '
                      f'(ctrl={ctrl[i].tolist()})', labels={'check': 'vs_mujoco'})
    other = [x for x in range(nv) if x not in actuated]
    if other and np.any(tau[i][other] != 0.0):
      raise Violation('unactuated_dof', f'state {i}: dof without actuator received force {tau[i][other]}')
  if ctx is not None:
    ctx.residual('vs_mujoco', worst)
  if nu:
    # constant beyond the control range
    for j, r in ranged:
      if k > 3 and spec['acts'][j].get('ctrllimited', 'true') != 'false':   # a range whose flag is "false" is not in force
        # 1e-12 relative, not bitwise: the two evaluations run with different batch sizes (last-bit differences)
        for row, bound, name in ((2, r[1], 'upper'), (3, r[0], 'lower')):
          at = _with(tt, ctrl[row], j, bound, q[row], qd[row], jp)
          if not np.all(np.abs(tau[row] - at) <= 1e-12 * (1 + np.abs(at))):
            raise Violation('saturation', f'actuator {j}: force changes beyond the {name} control bound: {tau[row].tolist()} vs {at.tolist()}')
    # monotone in each control; other dofs untouched
    i = k - 1
    for j, a in enumerate(spec['acts']):
      lo = _with(tt, ctrl[i], j, ctrl[i][j] - 0.7, q[i], qd[i], jp)
      hi = _with(tt, ctrl[i], j, ctrl[i][j] + 0.7, q[i], qd[i], jp)
      dof = s['act_qd'][j]
      sign = 1.0 if a['gear'] > 0 else -1.0
      if not sign * (hi[dof] - lo[dof]) >= -1e-12 * (1 + abs(hi[dof])):
        raise Violation('monotone', f'actuator {j} ({a["kind"]}, gear {a["gear"]}): raising its control moved the joint force '
                        f'from {lo[dof]!r} to {hi[dof]!r}')
      rest = [x for x in range(nv) if x != dof]
      if not np.all(np.abs(lo[rest] - hi[rest]) <= 1e-12 * (1 + np.abs(hi[rest]))):
        raise Violation('locality', f'actuator {j}: changing its control changed another dof')
    # additivity: separate single-actuator documents
    if nu >= 2:
      total = np.zeros(nv)
      for j, a in enumerate(spec['acts']):
        one = dict(spec, acts=[a])
        sys1 = phys.load_brax(modelgen.to_xml(one))
        total += np.asarray(m['actuator'].to_tau(sys1, jp.array(ctrl[i][j:j + 1]), jp.array(q[i]), jp.array(qd[i])))
      r = np.abs(total - tau[i]).max() / (1 + np.abs(tau[i]).max())
      if ctx is not None:
        ctx.residual('additivity', r)
      if not r <= 1e-12:
        raise Violation('additivity', f'force of {nu} actuators differs from the sum of the single-actuator forces by {r:.3e}')
  else:
    if np.any(tau != 0):
      raise Violation('no_actuators', 'model without actuators produced a joint force')
  cls = modelgen.classes(spec)
  nt = nu >= 1 and 'actuator_range_or_bias' in cls
  sig = modelgen.topology_signature(spec)
  fps = [(fingerprint([sig, q[i].tolist(), qd[i].tolist(), ctrl[i].tolist()]), bool(nt)) for i in range(k)]
  if any(a.get('ctrllimited') == 'false' for a in spec['acts']):
    cls = cls + ['ctrlrange_declared_but_ctrllimited_false']
  if any(a.get('forcelimited') == 'false' for a in spec['acts']):
    cls = cls + ['forcerange_declared_but_forcelimited_false']
  if any(a.get('ctrllimited') == 'auto' or a.get('forcelimited') == 'auto' for a in spec['acts']):
    cls = cls + ['limit_flag_left_to_autolimits']
  return dict(fps=fps, labels=cls + ([] if nu else ['nu0']),
              sample={'model': phys.model_summary(spec), 'actuators': spec['acts'][:6], 'ctrl0': ctrl[0].tolist(),
                      'states': k, 'worst_vs_mujoco': worst})


def _with(tt, c, j, v, q, qd, jp):
  c2 = np.array(c, float)
  c2[j] = v
  return np.asarray(tt(jp.array(c2[None]), jp.array(q[None]), jp.array(qd[None])))[0]


def tasks(tier, seed):
  q = tier == 'quick'
  return [{'kind': 'act', 'n': 14 if q else 250, 'k': 6 if q else 12} for _ in range(16)]


def run_task(task, ctx):
  def body(c):
    try:
      return check(c, ctx)
    except phys.GeneratorReject:
      ctx.count('generator_rejects')
      return None
  ctx.run_given(cases(task['k']), body, task['n'], task['seed'])


def replay(case, check_name=None):
  check(case)
