"""C12 - generalized integrator: energy and momentum drift vanish when extrapolated to zero step size."""

import numpy as np

from vf import modelgen, phys
from vf.harness import Violation, fingerprint

PROPERTY = 'C12'
X64 = True
SHRINK = {'quick': 10, 'thorough': 60}
RULE = (
    'conservative generator models (no damping, no limits, no actuators, joint springs allowed, arbitrary gravity vector, exact '
    'mass-matrix inverse, armature on any joint; any roots for energy, free roots for momentum; any hinge/slide stacks, also non-orthogonal) x K initial '
    'states with |qd| <= 1, integrated over a fixed horizon of 0.064 s with dt = 1e-3, 5e-4, 2.5e-4, 1.25e-4 through one compiled '
    'fori_loop. Oracle: twice-Richardson-extrapolated zero-step drift of E = KE + PE_gravity + PE_springs, and of P - M g t per free '
    'tree, is zero to 1e-5 relative - E evaluated both through the state\'s own mass matrix and, independently, by MuJoCo (mjENBL_ENERGY) for the same document at the start and end states - and the drift at dt/4 is at most 0.6 of the drift at dt/2. Non-trivial: KE_0 > 1e-3 and a '
    'non-free joint or a spring. Distinct: hash of (topology, rounded q, qd).')
ASSUMPTIONS = ['energy is evaluated twice: through the state\'s own mass matrix, and as MuJoCo evaluates it for the same document at the start and end states',
               'linear momentum of a free tree is read as (mass_mx @ qd)[root linear dofs], the momentum conjugate to the root translation',
               'runs whose velocity exceeds 1e3 or turns non-finite are counted diverged_not_compared']
TOLERANCES = {'extrapolated_drift': '1e-5*(|KE0| + |d(h)|) + 1e-9 + 2*|R2(h,h/2,h/4) - R2(h/2,h/4,h/8)| (measured worst 3e-7 relative: the h^3 term left by two Richardson steps)', 'halving': '|d(h/4)| <= 0.6 |d(h/2)| + floor'}
H = 0.064
DTS = [1e-3 / 2 ** i for i in range(4)]


def prof(root):
  return modelgen.profile(passive=False, springs=True, limits='none', actuators='none', root=root, max_bodies=4, gravity='any', armature_only=True)


def check(case, ctx=None):
  m = phys.mods()
  jax, jp = m['jax'], m['jp']
  gp = m['generalized']
  spec, states = case['spec'], case['states']
  xml = modelgen.to_xml(spec)
  mjm = phys.load_mj(xml)
  mj = m['mujoco']
  mjm.opt.enableflags |= int(mj.mjtEnableBit.mjENBL_ENERGY)
  mjd = mj.MjData(mjm)

  def mj_energy(q_, qd_):
    # the mechanical energy as the *model* defines it (kinetic incl. armature + gravity + joint springs), from MuJoCo
    mjd.qpos[:], mjd.qvel[:] = np.asarray(q_, float), np.asarray(qd_, float)
    mj.mj_forward(mjm, mjd)
    return float(mjd.energy[0] + mjd.energy[1])
  sys = phys.load_brax(xml)
  s = phys.check_structure(sys, spec)
  q, qd, _ = phys.arr_states(states)
  k = q.shape[0]
  roots = [i for i, b in enumerate(spec['bodies']) if b['parent'] == -1]
  all_free = all(spec['bodies'][r]['free'] for r in roots)
  root_of = []
  for i, b in enumerate(spec['bodies']):
    r = i
    while spec['bodies'][r]['parent'] != -1:
      r = spec['bodies'][r]['parent']
    root_of.append(r)
  jq = [(s['joint_slots'][(bi, ji)][0], float(j.get('stiffness', 0.0))) for bi, b in enumerate(spec['bodies'])
        for ji, j in enumerate(b['joints'])]
  qidx = jp.array([a for a, _ in jq], dtype=int) if jq else None
  kstiff = jp.array([c for _, c in jq]) if jq else None
  lin = [jp.array([s['qd_adr'][r] + d for d in range(3)]) for r in roots] if all_free else []
  mass = np.asarray(sys.link.inertia.mass)
  tree_mass = np.array([mass[[i for i in range(len(mass)) if root_of[i] == r]].sum() for r in roots])

  def measures(sy, st):
    ke = 0.5 * st.qd @ st.mass_mx @ st.qd
    x_i = st.x.vmap().do(sy.link.inertia.transform)
    pe = -jp.sum(sy.link.inertia.mass[:, None] * x_i.pos * sy.gravity[None, :])
    if qidx is not None:
      pe = pe + 0.5 * jp.sum(kstiff * st.q[qidx] ** 2)
    p = jp.stack([(st.mass_mx @ st.qd)[ix] for ix in lin]) if lin else jp.zeros((0, 3))
    return ke + pe, ke, p

  def run(q_, qd_, dt, n):
    sy = sys.tree_replace({'opt.timestep': dt})
    st = gp.init(sy, q_, qd_)
    e0, ke0, p0 = measures(sy, st)
    st = jax.lax.fori_loop(0, n, lambda i, s_: gp.step(sy, s_, jp.zeros(sys.act_size())), st)
    e1, _, p1 = measures(sy, st)
    return e1 - e0, ke0, p1 - p0, jp.max(jp.abs(st.qd)), st.q, st.qd

  f = jax.jit(jax.vmap(run, in_axes=(0, 0, None, None)))
  de, dp, vmax, de_mj = [], [], [], []
  ke0 = None
  e0_mj = np.array([mj_energy(q[i], qd[i]) for i in range(k)])
  for dt in DTS:
    n = int(round(H / dt))
    a, ke0, b, v, q1, qd1 = f(jp.array(q), jp.array(qd), dt, n)
    de.append(np.asarray(a))
    q1, qd1 = np.asarray(q1), np.asarray(qd1)
    de_mj.append(np.array([mj_energy(q1[i], qd1[i]) - e0_mj[i] if np.all(np.isfinite(q1[i])) and np.all(np.isfinite(qd1[i])) else np.nan
                           for i in range(k)]))
    dp.append(np.asarray(b) - tree_mass[None, :, None] * np.array(spec['gravity'])[None, None, :] * H if lin else np.zeros((k, 0, 3)))
    vmax.append(np.asarray(v))
  de, dp, vmax, ke0, de_mj = np.array(de), np.array(dp), np.array(vmax), np.asarray(ke0), np.array(de_mj)
  fps, worst = [], {}
  has_joint = any(not b['free'] for b in spec['bodies']) or any(c > 0 for _, c in jq)
  for i in range(k):
    ok = np.all(np.isfinite(de[:, i])) and np.all(vmax[:, i] < 1e3)
    if not ok:
      if ctx is not None:
        ctx.count('diverged_not_compared')
      continue
    # the same two assertions on the energy as the model defines it (independent of the state's own mass matrix)
    dm = de_mj[:, i]
    if np.all(np.isfinite(dm)):
      r1m = [2 * dm[j + 1] - dm[j] for j in range(3)]
      r2m = [(4 * r1m[j + 1] - r1m[j]) / 3 for j in range(2)]
      scale_m = abs(ke0[i]) + abs(dm[0])
      errm = abs(r2m[0] - r2m[1])
      worst['model_energy_R2_rel'] = max(worst.get('model_energy_R2_rel', 0.0), max(0.0, abs(r2m[1]) - 2 * errm) / (scale_m + 1e-4))
      worst['model_vs_state_energy_drift'] = max(worst.get('model_vs_state_energy_drift', 0.0), float(np.abs(dm - de[:, i]).max()) / (scale_m + 1e-4))
      if not abs(r2m[1]) <= 1e-5 * scale_m + 1e-9 + 2 * errm:
        raise Violation('energy_consistency', f'state {i}: drift of the mechanical energy defined by the model (kinetic incl. armature + gravity + joint springs, '
                        f'evaluated by MuJoCo at the start and end states) over {H}s at dt/1,2,4,8 = {dm.tolist()}; extrapolated to dt->0: {r2m[1]:.3e} '
                        f'(KE0 {ke0[i]:.3e}): the energy is not conserved in the small-step limit', labels={'check': 'model_energy'})
    d = de[:, i]
    r1 = [2 * d[j + 1] - d[j] for j in range(3)]
    r2 = [(4 * r1[j + 1] - r1[j]) / 3 for j in range(2)]
    scale = abs(ke0[i]) + abs(d[0])
    floor = 1e-5 * scale + 1e-9
    # r2[0] uses (h, h/2, h/4), r2[1] uses (h/2, h/4, h/8): their difference estimates what two Richardson steps leave
    # behind when h is not yet in the asymptotic regime (stiff springs); an inconsistent integrator gives r2[0] ~ r2[1] ~ c0
    err_est = abs(r2[0] - r2[1])
    worst['energy_R2_rel'] = max(worst.get('energy_R2_rel', 0.0), max(0.0, abs(r2[1]) - 2 * err_est) / (scale + 1e-4))
    if not abs(r2[1]) <= floor + 2 * err_est:
      raise Violation('energy_consistency', f'state {i}: energy drift over {H}s at dt/1,2,4,8 = {d.tolist()}; extrapolated to dt->0: {r2[1]:.3e} '
                      f'(KE0 {ke0[i]:.3e}): the energy is not conserved in the small-step limit', labels={'check': 'energy'})
    if not abs(d[2]) <= 0.6 * abs(d[1]) + floor + 2 * err_est:
      raise Violation('energy_order', f'state {i}: energy drift does not shrink with the step: {d.tolist()}', labels={'check': 'energy_order'})
    if lin:
      pp = dp[:, i]
      r1 = [2 * pp[j + 1] - pp[j] for j in range(3)]
      r2 = [(4 * r1[j + 1] - r1[j]) / 3 for j in range(2)]
      pscale = np.abs(np.asarray(q[i])).max() * 0 + tree_mass.max() * (1.0 + np.abs(qd[i]).max()) + np.abs(pp[0]).max()
      pfloor = 1e-5 * pscale + 1e-9
      e = float(np.abs(r2[1]).max())
      perr = float(np.abs(r2[0] - r2[1]).max())
      worst['momentum_R2_rel'] = max(worst.get('momentum_R2_rel', 0.0), max(0.0, e - 2 * perr) / pscale)
      if not e <= pfloor + 2 * perr:
        raise Violation('momentum_consistency', f'state {i}: P - M g t drift at dt/1,2,4,8 = {np.abs(pp).max(axis=(1, 2)).tolist()}; extrapolated {e:.3e}: '
                        'linear momentum of a free-floating tree is not conserved in the small-step limit', labels={'check': 'momentum'})
      if not np.abs(pp[2]).max() <= 0.6 * np.abs(pp[1]).max() + pfloor + 2 * perr:
        raise Violation('momentum_order', f'state {i}: momentum drift does not shrink with the step: {np.abs(pp).max(axis=(1, 2)).tolist()}',
                        labels={'check': 'momentum_order'})
    fps.append((fingerprint([modelgen.topology_signature(spec), q[i].tolist(), qd[i].tolist()]), bool(ke0[i] > 1e-3 and has_joint)))
  if ctx is not None:
    for n_, v in worst.items():
      ctx.residual(n_, v)
  if not fps:
    return None
  return dict(fps=fps, labels=modelgen.classes(spec) + (['momentum_checked'] if lin else ['energy_only']),
              sample={'model': phys.model_summary(spec), 'q0': q[0].tolist(), 'qd0': qd[0].tolist(),
                      'energy_drift_dt_1_2_4_8': de[:, 0].tolist(), 'KE0': float(ke0[0]), 'worst': worst})


def tasks(tier, seed):
  q = tier == 'quick'
  out = []
  for i in range(16):
    out.append({'kind': 'conserve', 'root': 'free' if i % 2 else 'any', 'n': 5 if q else 80, 'k': 3 if q else 6})
  return out


def run_task(task, ctx):
  def body(c):
    try:
      return check(c, ctx)
    except phys.GeneratorReject:
      ctx.count('generator_rejects')
      return None
  strat = modelgen.model_and_states(prof(task['root']), k=task['k'], q_range=(-1.0, 1.0), qd_range=(-1.0, 1.0))
  ctx.run_given(strat, body, task['n'], task['seed'])


def replay(case, check_name=None):
  check(case)
