"""C09 - spatial algebra laws of brax.math / brax.base / brax.com.

Two groups of executable laws, each evaluated by one jitted function per case:

* lattice: every input is an integer in [-9, 9] held in float64.  All laws in
  this group are polynomial identities whose intermediate values stay far
  below 2^53, so float64 evaluation is exact and the oracle is `==`.
  Rotations that must be unit (composition of motion/force/inertia moves) are
  drawn from the 24 Hurwitz unit quaternions, which are exact in binary.
* float: unit quaternions / vectors in [-3, 3]^3, oracle at 1e-12 (stated
  larger where the code regularises, e.g. inv_3x3 adds 1e-10 to det).
"""

import types

import numpy as np
from hypothesis import strategies as st

from vf.harness import Violation, fingerprint

PROPERTY = 'C09'
X64 = True
RULE = (
    'lattice: 84 integers in [-9,9] per case (3 quaternions, 6 vectors, 3 motions, 1 force, '
    '3 transforms, symmetric inertia, scalars) + 3 indices into the 24 Hurwitz unit quaternions, '
    'all laws evaluated exactly (==); float: unit quaternions from normalised floats, vectors in '
    '[-3,3]^3, special directions (equal, antiparallel, nearly antiparallel, a_y=+-0.5, zero) '
    'mixed in. Non-trivial: no zero quaternion and no zero vector among the inputs. Distinct: '
    'hash of the input tuple.')
ASSUMPTIONS = [
    'float64 arithmetic on integers below 2^53 is exact (lattice group)',
    'math.quat_mul_ang has no caller and no documented convention: nothing asserted',
    'from_to is only asserted for exactly equal / exactly antiparallel / angle >= 2e-3 rad from '
    'antiparallel inputs (inside the 1e-6 switch window the documented result is approximate)',
]
TOLERANCES = {'lattice': 0.0, 'float': 1e-12, 'inv_3x3': 1e-8, 'from_to_near_antiparallel': 1e-8}

NL = 84


def _hurwitz():
  qs = []
  for i in range(4):
    for s in (1.0, -1.0):
      q = [0.0] * 4
      q[i] = s
      qs.append(q)
  for a in (0.5, -0.5):
    for b in (0.5, -0.5):
      for c in (0.5, -0.5):
        for d in (0.5, -0.5):
          qs.append([a, b, c, d])
  return np.array(qs)


HURWITZ = _hurwitz()  # 24 elements

_fns = {}


def _lattice_fn():
  if 'lat' in _fns:
    return _fns['lat']
  import jax
  from jax import numpy as jp
  from brax import math
  from brax.base import Force, Inertia, Motion, Transform

  def qconj(q):
    return q * jp.array([1.0, -1.0, -1.0, -1.0])

  def f(x, hq):
    it = iter(range(NL))
    def take(n):
      return jp.array([x[next(it)] for _ in range(n)])
    p, q, r = take(4), take(4), take(4)
    u, v, w = take(3), take(3), take(3)
    m1 = Motion(ang=take(3), vel=take(3))
    m2 = Motion(ang=take(3), vel=take(3))
    m3 = Motion(ang=take(3), vel=take(3))
    frc = Force(ang=take(3), vel=take(3))
    frc2 = Force(ang=take(3), vel=take(3))
    ta = Transform(pos=take(3), rot=take(4))
    tb = Transform(pos=take(3), rot=take(4))
    tc = Transform(pos=take(3), rot=take(4))
    ivals = take(6)
    imx = jp.array([[ivals[0], ivals[3], ivals[4]],
                    [ivals[3], ivals[1], ivals[5]],
                    [ivals[4], ivals[5], ivals[2]]])
    mass = take(1)[0]
    com = take(3)
    s, t = take(1)[0], take(1)[0]
    one = jp.array([1.0, 0.0, 0.0, 0.0])
    n2 = lambda a: jp.dot(a, a)
    out = {}

    def law(name, lhs, rhs):
      l = jp.concatenate([jp.ravel(a) for a in jax.tree_util.tree_leaves(lhs)])
      rr = jp.concatenate([jp.ravel(a) for a in jax.tree_util.tree_leaves(rhs)])
      out[name] = jp.max(jp.abs(l - rr))

    qm = math.quat_mul
    law('quat_mul_assoc', qm(qm(p, q), r), qm(p, qm(q, r)))
    law('quat_mul_unit_left', qm(one, q), q)
    law('quat_mul_unit_right', qm(q, one), q)
    law('quat_norm_multiplicative', n2(qm(p, q)), n2(p) * n2(q))
    law('quat_inv_antihomomorphism', math.quat_inv(qm(p, q)),
        qm(math.quat_inv(q), math.quat_inv(p)))
    law('quat_inv_is_conjugate', math.quat_inv(q), qconj(q))
    law('quat_times_conj', qm(q, math.quat_inv(q)), n2(q) * one)
    law('quat_mul_bilinear', qm(s * p + t * r, q), s * qm(p, q) + t * qm(r, q))
    sandwich = qm(qm(q, jp.concatenate([jp.zeros(1), v])), qconj(q))
    law('rotate_is_sandwich', jp.concatenate([jp.zeros(1), math.rotate(v, q)]), sandwich)
    law('rotate_product', math.rotate(v, qm(p, q)), math.rotate(math.rotate(v, q), p))
    law('rotate_linear', math.rotate(s * u + t * v, q),
        s * math.rotate(u, q) + t * math.rotate(v, q))
    law('rotate_norm', n2(math.rotate(v, q)), n2(q) ** 2 * n2(v))
    law('rotate_cross', math.rotate(jp.cross(u, v), q) * n2(q),
        jp.cross(math.rotate(u, q), math.rotate(v, q)))
    law('inv_rotate_inverts', math.inv_rotate(math.rotate(v, q), q), n2(q) ** 2 * v)
    law('inv_rotate_def', math.inv_rotate(v, q), math.rotate(v, qconj(q)))
    law('vec_quat_mul', math.vec_quat_mul(u, q), qm(jp.concatenate([jp.zeros(1), u]), q))
    law('ang_to_quat', math.ang_to_quat(u), jp.concatenate([jp.zeros(1), u]))
    law('relative_quat', qm(math.relative_quat(p, q), p), n2(p) * q)
    law('rotate_np', jp.zeros(3), jp.zeros(3))  # placeholder keeps key order stable

    # transforms (any integer quaternion: identities hold with known |q| powers)
    law('transform_assoc', ta.do(tb.do(tc)), ta.do(tb).do(tc))
    zero = Transform.zero()
    law('transform_unit_left', zero.do(ta), ta)
    law('transform_unit_right', ta.do(zero), ta)
    loc = ta.do(tb).to_local(ta)
    law('transform_to_local', loc,
        Transform(pos=n2(ta.rot) ** 2 * tb.pos, rot=n2(ta.rot) * tb.rot))
    inv = zero.to_local(ta)
    law('transform_inverse', ta.do(inv),
        Transform(pos=(1 - n2(ta.rot) ** 2) * ta.pos, rot=n2(ta.rot) * one))
    law('transform_create_pos', Transform.create(pos=u), Transform(pos=u, rot=one))
    law('transform_create_rot', Transform.create(rot=q), Transform(pos=jp.zeros(3), rot=q))
    law('motion_inv_do', ta.inv_do(ta.do(m1)), m1 * n2(ta.rot) ** 2)
    law('motion_do_def', ta.do(m1),
        Motion(ang=math.rotate(m1.ang, qconj(ta.rot)),
               vel=math.rotate(m1.vel - jp.cross(ta.pos, m1.ang), qconj(ta.rot))))
    law('force_do_def', ta.do(frc),
        Force(ang=math.rotate(frc.ang, ta.rot) + jp.cross(ta.pos, math.rotate(frc.vel, ta.rot)),
              vel=math.rotate(frc.vel, ta.rot)))
    law('power_duality', m1.dot(ta.do(frc)), ta.do(m1).dot(frc))
    law('motion_do_linear', ta.do(m1 * s + m2 * t), ta.do(m1) * s + ta.do(m2) * t)
    law('force_do_linear', ta.do(frc * s + frc2 * t), ta.do(frc) * s + ta.do(frc2) * t)
    # spatial cross products
    law('cross_antisymmetric', m1.cross(m2), -(m2.cross(m1)))
    jac = m1.cross(m2.cross(m3)) + m2.cross(m3.cross(m1)) + m3.cross(m1.cross(m2))
    law('cross_jacobi', jac, Motion.zero())
    law('cross_duality', m2.cross(m1).dot(frc) + m1.dot(m2.cross(frc)), jp.zeros(()))
    law('cross_motion_def', m1.cross(m2),
        Motion(ang=jp.cross(m1.ang, m2.ang),
               vel=jp.cross(m1.ang, m2.vel) + jp.cross(m1.vel, m2.ang)))
    law('cross_bilinear', (m1 * s + m3 * t).cross(m2), m1.cross(m2) * s + m3.cross(m2) * t)
    law('cross_force_bilinear', m1.cross(frc * s + frc2 * t),
        m1.cross(frc) * s + m1.cross(frc2) * t)
    law('dot_bilinear', (m1 * s + m2 * t).dot(m3), s * m1.dot(m3) + t * m2.dot(m3))
    law('dot_symmetric', m1.dot(m2), m2.dot(m1))
    law('dot_def', m1.dot(frc), jp.dot(m1.ang, frc.ang) + jp.dot(m1.vel, frc.vel))
    law('matrix', m1.matrix(), jp.concatenate([m1.ang, m1.vel]))
    # inertia
    inr = Inertia(transform=Transform(pos=com, rot=one), i=imx, mass=mass)
    law('inertia_mul_symmetric', m1.dot(inr.mul(m2)), m2.dot(inr.mul(m1)))
    law('inertia_mul_linear', inr.mul(m1 * s + m2 * t), inr.mul(m1) * s + inr.mul(m2) * t)
    law('inertia_mul_def', inr.mul(m1),
        Force(ang=imx @ m1.ang + jp.cross(com, m1.vel), vel=mass * m1.vel - jp.cross(com, m1.ang)))
    # exact unit rotations (Hurwitz units): moves compose, kinetic energy invariant
    ha = Transform(pos=ta.pos, rot=hq[0])
    hb = Transform(pos=tb.pos, rot=hq[1])
    law('unit_motion_do_compose', ha.do(hb).do(m1), hb.do(ha.do(m1)))
    law('unit_force_do_compose', ha.do(hb).do(frc), ha.do(hb.do(frc)))
    law('unit_motion_inv_do', ha.inv_do(ha.do(m1)), m1)
    law('unit_power_duality', m1.dot(ha.do(frc)), ha.do(m1).dot(frc))
    law('unit_cross_equivariant', ha.do(m1.cross(m2)), ha.do(m1).cross(ha.do(m2)))
    law('unit_cross_force_equivariant', ha.do(ha.do(m1).cross(frc)), m1.cross(ha.do(frc)))
    law('unit_rot_matrix', math.quat_to_3x3(hq[0]) @ v, math.rotate(v, hq[0]))
    law('unit_rot_matrix_scaled', math.quat_to_3x3(2 * hq[2]) @ v, math.rotate(v, hq[2]))
    i0 = Inertia(transform=Transform.zero(), i=imx, mass=mass)
    moved = ha.do(i0)
    mb = ha.do(m1)
    law('unit_kinetic_energy', m1.dot(moved.mul(m1)), mb.dot(i0.mul(mb)))
    law('unit_inertia_momentum', ha.do(i0.mul(mb)), moved.mul(m1))
    law('unit_inertia_mass', moved.mass, mass)
    law('unit_inertia_sym', moved.i, moved.i.T)
    return out

  _fns['lat'] = jax.jit(f)
  return _fns['lat']


def _float_fn():
  if 'flt' in _fns:
    return _fns['flt']
  import jax
  from jax import numpy as jp
  from brax import com as bcom
  from brax import math
  from brax.base import Inertia, Motion, Transform

  def f(d):
    p, q, r = d['p'], d['q'], d['r']
    u, v = d['u'], d['v']
    out = {}

    def law(name, lhs, rhs, scale=1.0):
      l = jp.concatenate([jp.ravel(a) for a in jax.tree_util.tree_leaves(lhs)])
      rr = jp.concatenate([jp.ravel(a) for a in jax.tree_util.tree_leaves(rhs)])
      out[name] = jp.max(jp.abs(l - rr)) / scale

    rm = math.quat_to_3x3(q)
    law('rot_matrix_agrees', rm @ v, math.rotate(v, q), 4.0)
    law('rot_matrix_orthonormal', rm @ rm.T, jp.eye(3))
    law('rot_matrix_det', jp.linalg.det(rm), 1.0)
    law('rot_matrix_product', math.quat_to_3x3(math.quat_mul(p, q)), math.quat_to_3x3(p) @ rm)
    law('rotate_preserves_norm', jp.linalg.norm(math.rotate(v, q)), jp.linalg.norm(v), 4.0)
    # Rodrigues
    ax, th = d['axis'], d['angle']
    rod = (v * jp.cos(th) + jp.cross(ax, v) * jp.sin(th)
           + ax * jp.dot(ax, v) * (1 - jp.cos(th)))
    qa = math.quat_rot_axis(ax, th)
    law('quat_rot_axis_rodrigues', math.rotate(v, qa), rod, 4.0)
    law('quat_rot_axis_unit', jp.dot(qa, qa), 1.0)
    # kinetic energy invariance
    t = Transform(pos=d['tpos'], rot=q)
    l_ = d['ichol']
    imx = l_ @ l_.T
    i0 = Inertia(transform=Transform.zero(), i=imx, mass=d['mass'])
    m = Motion(ang=d['mang'], vel=d['mvel'])
    mb = t.do(m)
    ke_scale = 1.0 + jp.abs(mb.dot(i0.mul(mb)))
    law('kinetic_energy_invariant', m.dot(t.do(i0).mul(m)), mb.dot(i0.mul(mb)), ke_scale)
    law('motion_inv_do', t.inv_do(t.do(m)), m, 10.0)
    law('transform_to_local', t.do(Transform(pos=u, rot=p)).to_local(t), Transform(pos=u, rot=p), 4.0)
    law('transform_inverse', t.do(Transform.zero().to_local(t)), Transform.zero(), 4.0)
    # euler
    e = d['euler']  # radians
    qx = math.quat_rot_axis(jp.array([1.0, 0, 0]), e[0])
    qy = math.quat_rot_axis(jp.array([0, 1.0, 0]), e[1])
    qz = math.quat_rot_axis(jp.array([0, 0, 1.0]), e[2])
    qe = math.euler_to_quat(e * 180.0 / jp.pi)
    law('euler_to_quat_xyz', qe, math.quat_mul(math.quat_mul(qx, qy), qz))
    law('quat_to_euler_inverts', math.quat_to_euler(qe), e, 1e2)
    # from_to
    a, b = d['ft_a'], d['ft_b']
    ft = math.from_to(a, b)
    law('from_to_unit', jp.dot(ft, ft), 1.0)
    law('from_to_rotates', math.rotate(a, ft), b, d['ft_scale'])
    # orthogonals
    oa = d['orth_a']
    ob, oc = math.orthogonals(oa)
    nz = jp.any(oa != 0) * 1.0
    law('orthogonals_b_unit', jp.dot(ob, ob), nz)
    law('orthogonals_b_perp', jp.dot(ob, oa), 0.0)
    law('orthogonals_c', oc, jp.cross(oa, ob))
    law('orthogonals_c_unit', jp.dot(oc, oc), nz)
    law('orthogonals_frame_det', jp.linalg.det(jp.stack([oa, ob, oc])), nz)
    # inv_3x3
    mm = d['mat']
    law('inv_3x3', math.inv_3x3(mm) @ mm, jp.eye(3), 1e4)
    # signed angle
    sa_axis = ax
    ref_p = math.orthogonals(ax)[0]
    ref_c = math.rotate(ref_p, math.quat_rot_axis(ax, d['sangle']))
    law('signed_angle', math.signed_angle(sa_axis, ref_p, ref_c), d['sangle'])
    # relative quat
    law('relative_quat', math.quat_mul(math.relative_quat(p, q), p), q)
    # com
    nl = 2
    xs = Transform(pos=jp.stack([u, v]), rot=jp.stack([p, q]))
    xds = Motion(ang=jp.stack([d['mang'], d['mvel']]), vel=jp.stack([d['mvel'], d['tpos']]))
    cpos = jp.stack([d['tpos'], u])
    irot = jp.stack([r, p])
    idiag = jp.stack([jp.diag(d['idiag']), jp.diag(d['idiag'][::-1])])
    inertia = Inertia(transform=Transform(pos=cpos, rot=irot), i=idiag,
                      mass=jp.array([d['mass'], 2.0]))
    fsys = types.SimpleNamespace(link=types.SimpleNamespace(inertia=inertia),
                                 spring_inertia_scale=d['iscale'])
    x_i, xd_i = bcom.from_world(fsys, xs, xds)
    law('com_from_world_pos', x_i.pos, xs.pos + jax.vmap(math.rotate)(cpos, xs.rot), 10.0)
    law('com_from_world_rot', x_i.rot, xs.rot)
    law('com_from_world_vel', xd_i.vel, xds.vel + jax.vmap(jp.cross)(xds.ang, x_i.pos - xs.pos), 30.0)
    law('com_from_world_ang', xd_i.ang, xds.ang)
    x2, xd2 = bcom.to_world(fsys, x_i, xd_i)
    law('com_round_trip_x', x2, xs, 10.0)
    law('com_round_trip_xd', xd2, xds, 30.0)
    ii = bcom.inv_inertia(fsys, xs)
    def ref_inv(xr, ir, idg):
      rr = math.quat_to_3x3(math.quat_mul(xr, ir))
      return rr @ jp.diag(1.0 / idg ** (1 - d['iscale'])) @ rr.T
    ref = jax.vmap(ref_inv)(xs.rot, irot, jp.stack([d['idiag'], d['idiag'][::-1]]))
    law('com_inv_inertia', ii, ref, 1.0 + jp.max(jp.abs(ref)))
    return out

  _fns['flt'] = jax.jit(f)
  return _fns['flt']


# ---------------------------------------------------------------------------
# strategies (plain JSON values)

_ints = st.integers(-9, 9)


def lattice_cases():
  return st.fixed_dictionaries({
      'x': st.lists(_ints, min_size=NL, max_size=NL),
      'h': st.lists(st.integers(0, 23), min_size=3, max_size=3),
  })


def _f(lo, hi):
  return st.floats(lo, hi, allow_nan=False, allow_infinity=False, width=64)


def _vec(lo=-3.0, hi=3.0, n=3):
  special = st.sampled_from([0.0, 1.0, -1.0, 0.5, -0.5])
  return st.lists(st.one_of(_f(lo, hi), special), min_size=n, max_size=n)


SPECIAL_DIRS = [[1, 0, 0], [0, 1, 0], [0, 0, 1], [-1, 0, 0], [0, -1, 0], [0, 0, -1]]


def float_cases():
  return st.fixed_dictionaries({
      'p': _vec(-1, 1, 4), 'q': _vec(-1, 1, 4), 'r': _vec(-1, 1, 4),
      'u': _vec(), 'v': _vec(), 'axis': _vec(-1, 1), 'angle': _f(-6.0, 6.0),
      'tpos': _vec(), 'ichol': st.lists(_f(-2, 2), min_size=9, max_size=9),
      'mass': _f(0.1, 10.0), 'mang': _vec(), 'mvel': _vec(),
      'euler': st.tuples(_f(-3.1, 3.1), _f(-1.52, 1.52), _f(-3.1, 3.1)),
      'ft_kind': st.sampled_from(['generic', 'equal', 'antiparallel', 'near_antiparallel', 'axis']),
      'ft_a': _vec(-1, 1), 'ft_b': _vec(-1, 1), 'ft_delta': _f(2e-3, 0.1),
      'orth_kind': st.sampled_from(['generic', 'y_half', 'y_neg_half', 'zero', 'axis', 'y_near_half']),
      'orth_a': _vec(-1, 1), 'orth_eps': _f(-1e-9, 1e-9),
      'mat_q1': _vec(-1, 1, 4), 'mat_q2': _vec(-1, 1, 4),
      'mat_d': st.lists(st.one_of(_f(0.5, 3.0), _f(-3.0, -0.5)), min_size=3, max_size=3),
      'sangle': _f(-3.1, 3.1),
      'idiag': st.lists(_f(0.05, 5.0), min_size=3, max_size=3),
      'iscale': st.sampled_from([0.0, 0.0, 1.0, 0.5]),
  })


def _unit(v, fallback):
  v = np.asarray(v, dtype=np.float64)
  n = np.linalg.norm(v)
  if not n > 1e-3:
    return np.asarray(fallback, dtype=np.float64)
  return v / n


def _q2m(q):
  w, x, y, z = q
  return np.array([
      [1 - 2 * (y * y + z * z), 2 * (x * y - w * z), 2 * (x * z + w * y)],
      [2 * (x * y + w * z), 1 - 2 * (x * x + z * z), 2 * (y * z - w * x)],
      [2 * (x * z - w * y), 2 * (y * z + w * x), 1 - 2 * (x * x + y * y)]])


def prepare_float(c):
  """Derives the jitted function's inputs from the drawn JSON case."""
  d = {}
  for k in ('p', 'q', 'r'):
    d[k] = _unit(c[k], [1, 0, 0, 0])
  d['u'], d['v'] = np.array(c['u'], float), np.array(c['v'], float)
  d['axis'] = _unit(c['axis'], [0, 0, 1])
  d['angle'] = np.float64(c['angle'])
  d['tpos'] = np.array(c['tpos'], float)
  d['ichol'] = np.array(c['ichol'], float).reshape(3, 3)
  d['mass'] = np.float64(c['mass'])
  d['mang'], d['mvel'] = np.array(c['mang'], float), np.array(c['mvel'], float)
  d['euler'] = np.array(c['euler'], float)
  a = _unit(c['ft_a'], [1, 0, 0])
  kind = c['ft_kind']
  scale = 1.0
  if kind == 'equal':
    b = a.copy()
  elif kind == 'antiparallel':
    b = -a
    scale = 1e3   # 1e-12 * 1e3 = 1e-9
  elif kind == 'near_antiparallel':
    # rotate -a by delta about some axis orthogonal to a
    o = np.cross(a, [1.0, 0, 0]) if abs(a[0]) < 0.9 else np.cross(a, [0, 1.0, 0])
    o /= np.linalg.norm(o)
    dl = c['ft_delta']
    b = -a * np.cos(dl) + o * np.sin(dl)
    b /= np.linalg.norm(b)
    scale = 1e4   # 1e-8
  elif kind == 'axis':
    a = np.array(SPECIAL_DIRS[int(abs(c['ft_a'][0]) * 5.99)], float)
    b = np.array(SPECIAL_DIRS[int(abs(c['ft_b'][0]) * 5.99)], float)
    scale = 1e3 if np.allclose(a, -b) else 1.0
  else:
    b = _unit(c['ft_b'], [0, 1, 0])
    if np.dot(a, b) < -0.99999:
      b = -b
    scale = 100.0
  d['ft_a'], d['ft_b'], d['ft_scale'] = a, b, np.float64(scale)
  ok = c['orth_kind']
  oa = _unit(c['orth_a'], [0, 0, 1])
  if ok in ('y_half', 'y_neg_half', 'y_near_half'):
    y = 0.5 if ok != 'y_neg_half' else -0.5
    if ok == 'y_near_half':
      y = 0.5 + c['orth_eps']
    xz = np.array([oa[0], oa[2]])
    n = np.linalg.norm(xz)
    xz = xz / n if n > 1e-6 else np.array([1.0, 0.0])
    xz = xz * np.sqrt(1 - y * y)
    oa = np.array([xz[0], y, xz[1]])
  elif ok == 'zero':
    oa = np.zeros(3)
  elif ok == 'axis':
    oa = np.array(SPECIAL_DIRS[int(abs(c['orth_a'][0]) * 5.99)], float)
  d['orth_a'] = oa
  r1, r2 = _q2m(_unit(c['mat_q1'], [1, 0, 0, 0])), _q2m(_unit(c['mat_q2'], [1, 0, 0, 0]))
  d['mat'] = r1 @ np.diag(c['mat_d']) @ r2
  d['sangle'] = np.float64(c['sangle'])
  d['idiag'] = np.array(c['idiag'], float)
  d['iscale'] = np.float64(c['iscale'])
  return d


def check_lattice(c):
  x = np.array(c['x'], dtype=np.float64)
  hq = HURWITZ[np.array(c['h'])]
  out = _lattice_fn()(x, hq)
  out = {k: float(v) for k, v in out.items()}
  # rotate_np / quat_mul_np (host-side twins used by the MJCF loader)
  from brax import math
  q, v = x[4:8], x[12:15]
  p = x[0:4]
  import jax.numpy as jp
  out['rotate_np'] = float(np.max(np.abs(math.rotate_np(v, q) - np.asarray(math.rotate(jp.array(v), jp.array(q))))))
  out['quat_mul_np'] = float(np.max(np.abs(math.quat_mul_np(p, q) - np.asarray(math.quat_mul(jp.array(p), jp.array(q))))))
  bad = {k: r for k, r in out.items() if not r == 0.0}
  if bad:
    k = sorted(bad)[0]
    raise Violation('lattice:' + k, f'law {k} fails exactly: residual {bad[k]!r} (all failing: {sorted(bad)})',
                    labels={'group': 'lattice', 'law': k})
  groups = [x[0:4], x[4:8], x[8:12], x[12:15], x[15:18], x[18:21]]
  nontrivial = all(np.any(g != 0) for g in groups) and all(
      np.any(x[i:i + 4] != 0) for i in (54, 61, 68))
  return dict(fp=fingerprint(c), nontrivial=bool(nontrivial), labels=['lattice'],
              sample={'group': 'lattice', 'inputs': c, 'laws_checked': len(out), 'max_residual': 0.0})


def check_float(c):
  d = prepare_float(c)
  out = _float_fn()(d)
  out = {k: float(v) for k, v in out.items()}
  worst = {}
  bad = {}
  for k, r in out.items():
    tol = 1e-12
    worst[k] = r
    if not r <= tol:
      bad[k] = r
  if bad:
    k = sorted(bad)[0]
    raise Violation('float:' + k, f'law {k}: scaled residual {bad[k]:.3e} > 1e-12 (all failing: {sorted(bad)})',
                    labels={'group': 'float', 'law': k})
  nontrivial = bool(np.any(d['u']) and np.any(d['v']) and np.any(d['orth_a'])
                    and abs(d['angle']) > 1e-3)
  return dict(fp=fingerprint(c), nontrivial=nontrivial,
              labels=['float', 'ft:' + c['ft_kind'], 'orth:' + c['orth_kind']],
              sample={'group': 'float', 'inputs': c, 'laws_checked': len(out),
                      'max_scaled_residual': max(worst.values())}), worst


def tasks(tier, seed):
  n_lat = 500 if tier == 'quick' else 6000
  n_flt = 400 if tier == 'quick' else 5000
  out = []
  for w in range(8):
    out.append({'kind': 'lattice', 'n': n_lat})
    out.append({'kind': 'float', 'n': n_flt})
  return out


def run_task(task, ctx):
  if task['kind'] == 'lattice':
    ctx.run_given(lattice_cases(), check_lattice, task['n'], task['seed'], check='lattice')
  else:
    def body(c):
      info, worst = check_float(c)
      for k, r in worst.items():
        ctx.residual('float:' + k, r)
      return info
    ctx.run_given(float_cases(), body, task['n'], task['seed'], check='float')


def replay(case, check=None):
  if check == 'lattice' or 'x' in case:
    check_lattice(case)
  else:
    check_float(case)
