"""C13 - mjcf.fuse_bodies preserves the model's geometry (MuJoCo FK of original vs fused document)."""

import math
import xml.etree.ElementTree as ET

import numpy as np
from hypothesis import strategies as st

from vf import modelgen, phys
from vf.harness import Violation, fingerprint

PROPERTY = 'C13'
X64 = True
RULE = (
    'MJCF documents: a tree of up to ~9 bodies in which 1-3 levels of jointless bodies are inserted under the world, under '
    'jointed bodies and nested; each jointless body has pos only / quat only / both / neither (class = first draw), unit or '
    'non-normalised quat (norm in [0.6,3]), and holds geoms (pos/quat or fromto), sites and jointed child bodies (hinge/slide; '
    'free joints on top-level bodies). Oracle: MuJoCo forward kinematics of the original string vs mjcf.fuse_bodies(string) at '
    'qpos0 and at a random qpos (mapped by joint name): every geom/site/jointed body by name; composite mass, CoM and world inertia '
    'of each jointed body with its welded jointless descendants. Non-trivial: a jointless body with non-identity quat holding a geom '
    'or a jointed child. Distinct: hash of the document spec.')
ASSUMPTIONS = ['the fuser prints %f (six decimals): position tolerance 3e-5, orientation 1e-4 rad (each fused level re-prints quats of norm down to 0.3 with six decimals, about 7e-6 rad per level and per element; measured worst 4e-5), mass/inertia rel 5e-5, offsets bounded by 1',
               'orientation of fromto capsules about their own axis is not defined by the document: end points are compared instead',
               'non-normalised quats on jointless bodies: recorded known finding C13/nonunit-jointless-quat (a failing case is attributed to it only '
               'if the same document with those quats normalised passes)']
TOLERANCES = {'position': 3e-5, 'orientation_rad': 1e-4, 'mass_rel': 5e-5, 'com': 1e-5, 'inertia_rel': 5e-5}
FLOORS = {'quat_only': 0.2, 'nested': 0.25, 'fromto_in_jointless': 0.2}  # non-unit quats: see counters.excluded_known

fl = modelgen.fl


def floors(labels, programs, tier):
  return phys.floors_report(labels, programs, FLOORS)


@st.composite
def _quat(draw, allow_nonunit):
  q = draw(modelgen.unit_quat(identity_p=0.0))
  if q == [1.0, 0.0, 0.0, 0.0]:
    q = [0.8, 0.2, 0.4, 0.4]
  if allow_nonunit and draw(st.integers(0, 2)) == 0:
    s = draw(st.sampled_from([0.6, 0.8, 2.0, 3.0, 1.5, 0.7]))  # >= 0.6: the six-decimal printing error grows as 1/prod(norms)
    q = [round(x * s, 3) for x in q]
    if not any(q[1:]) or abs(math.sqrt(sum(x * x for x in q)) - 1) < 1e-3:
      q = [1.0, 1.0, 0.0, 0.0]
  return q


@st.composite
def _geom(draw, ident, in_jointless):
  typ = draw(st.sampled_from(['sphere', 'capsule', 'box', 'capsule']))
  g = {'name': f'g{ident}', 'type': typ, 'density': draw(fl(200.0, 2000.0))}
  if typ == 'capsule' and draw(st.integers(0, 1 if in_jointless else 2)) == 0:
    a = draw(modelgen.vec3(-0.4, 0.4))
    b = draw(modelgen.vec3(-0.4, 0.4))
    if np.linalg.norm(np.array(a) - np.array(b)) < 0.05:
      b = [a[0] + 0.1, a[1] - 0.2, a[2] + 0.15]
    g['fromto'] = a + b
    g['size'] = [draw(fl(0.03, 0.1))]
  else:
    n = {'sphere': 1, 'capsule': 2, 'box': 3}[typ]
    g['size'] = draw(st.lists(fl(0.04, 0.15), min_size=n, max_size=n))
    mode = draw(st.sampled_from(['both', 'pos', 'quat', 'none']))
    if mode in ('both', 'pos'):
      g['pos'] = draw(modelgen.vec3(-0.4, 0.4))
    if mode in ('both', 'quat'):
      g['quat'] = draw(_quat(True))
  return g


@st.composite
def documents(draw):
  cls = draw(st.sampled_from(['quat_only', 'pos_only', 'both', 'neither', 'nested', 'nonunit', 'mixed', 'mixed']))
  counter = {'n': 0}
  budget = {'bodies': draw(st.integers(3, 9))}

  def nid():
    counter['n'] += 1
    return counter['n']

  def jointless(depth, force=None):
    b = {'name': f'b{nid()}', 'jointless': True, 'geoms': [], 'sites': [], 'children': []}
    mode = force or (cls if cls in ('quat_only', 'pos_only', 'both', 'neither') else
                     draw(st.sampled_from(['quat_only', 'pos_only', 'both', 'neither', 'both', 'quat_only'])))
    if mode in ('pos_only', 'both'):
      b['pos'] = draw(modelgen.vec3(-0.5, 0.5))
      if not any(b['pos']):
        b['pos'] = [0.1, -0.2, 0.3]
    if mode in ('quat_only', 'both'):
      b['quat'] = draw(_quat(cls in ('nonunit', 'mixed')))
      if cls == 'nonunit' and abs(math.sqrt(sum(x * x for x in b['quat'])) - 1) < 1e-3:
        b['quat'] = [round(x * 2.0, 3) for x in b['quat']]
    budget['bodies'] -= 1
    for _ in range(draw(st.integers(0, 2))):
      b['geoms'].append(draw(_geom(nid(), True)))
    if draw(st.booleans()):
      s = {'name': f's{nid()}', 'pos': draw(modelgen.vec3(-0.3, 0.3))}
      if draw(st.booleans()):
        s['quat'] = draw(_quat(False))
      b['sites'].append(s)
    nest = (cls == 'nested' and depth < 2) or (depth < 2 and draw(st.integers(0, 3)) == 0)
    if nest and budget['bodies'] > 0:
      b['children'].append(jointless(depth + 1))
    if budget['bodies'] > 0 and (draw(st.booleans()) or not (b['geoms'] or b['children'])):
      b['children'].append(jointed(depth + 1, top=False))
    if not (b['geoms'] or b['children'] or b['sites']):
      b['geoms'].append(draw(_geom(nid(), True)))
    return b

  def jointed(depth, top):
    i = nid()
    b = {'name': f'b{i}', 'jointless': False, 'geoms': [draw(_geom(nid(), False))], 'sites': [], 'children': []}
    budget['bodies'] -= 1
    if draw(st.integers(0, 3)) != 0:
      b['pos'] = draw(modelgen.vec3(-0.5, 0.5))
    if draw(st.integers(0, 2)) != 0:
      b['quat'] = draw(_quat(True))
    if top and draw(st.integers(0, 2)) == 0:
      b['joint'] = {'name': f'j{i}', 'type': 'free'}
    else:
      b['joint'] = {'name': f'j{i}', 'type': draw(st.sampled_from(['hinge', 'slide'])), 'axis': draw(modelgen.unit_vec())}
      if draw(st.booleans()):
        b['joint']['pos'] = draw(modelgen.vec3(-0.2, 0.2))
    if draw(st.integers(0, 2)) == 0:
      b['sites'].append({'name': f's{nid()}', 'pos': draw(modelgen.vec3(-0.3, 0.3))})
    nkids = draw(st.integers(0, 2)) if depth < 4 else 0
    for _ in range(nkids):
      if budget['bodies'] <= 0:
        break
      if draw(st.integers(0, 2)) != 0:
        b['children'].append(jointless(0))
      else:
        b['children'].append(jointed(depth + 1, top=False))
    return b

  top = []
  first = draw(st.sampled_from(['jointless_under_world', 'jointed', 'jointed']))
  if first == 'jointless_under_world':
    top.append(jointless(0))
  top.append(jointed(0, top=True))
  # make sure there is at least one jointless body under a jointed one
  if not _has_jointless(top[-1]):
    top[-1]['children'].append(jointless(0))
  if budget['bodies'] > 0 and draw(st.booleans()):
    top.append(jointed(0, top=True) if draw(st.booleans()) else jointless(0))
  return {'cls': cls, 'top': top, 'qseed': draw(st.lists(fl(-1.0, 1.0), min_size=24, max_size=24)),
          'rootquat': draw(modelgen.unit_quat(identity_p=0.1))}


def _has_jointless(b):
  return any(c['jointless'] or _has_jointless(c) for c in b['children'])


def fmt(v):
  return ' '.join(repr(float(x)) for x in v)


def doc_xml(doc, normalise_jointless=False):
  out = ['<mujoco>', '  <compiler angle="radian"/>', '  <worldbody>']

  def emit(b, ind):
    s = ' ' * ind
    a = f'name="{b["name"]}"'
    if 'pos' in b:
      a += f' pos="{fmt(b["pos"])}"'
    if 'quat' in b:
      q = b['quat']
      if normalise_jointless and b['jointless']:
        n = math.sqrt(sum(x * x for x in q))
        q = [x / n for x in q]
      a += f' quat="{fmt(q)}"'
    out.append(f'{s}<body {a}>')
    if not b['jointless']:
      j = b['joint']
      if j['type'] == 'free':
        out.append(f'{s}  <freejoint name="{j["name"]}"/>')
      else:
        ja = f'name="{j["name"]}" type="{j["type"]}" axis="{fmt(j["axis"])}"'
        if 'pos' in j:
          ja += f' pos="{fmt(j["pos"])}"'
        out.append(f'{s}  <joint {ja}/>')
    for g in b['geoms']:
      ga = f'name="{g["name"]}" type="{g["type"]}" size="{fmt(g["size"])}" density="{g["density"]!r}" contype="0" conaffinity="0"'
      if 'fromto' in g:
        ga += f' fromto="{fmt(g["fromto"])}"'
      if 'pos' in g:
        ga += f' pos="{fmt(g["pos"])}"'
      if 'quat' in g:
        ga += f' quat="{fmt(g["quat"])}"'
      out.append(f'{s}  <geom {ga}/>')
    for st_ in b['sites']:
      sa = f'name="{st_["name"]}" pos="{fmt(st_["pos"])}"'
      if 'quat' in st_:
        sa += f' quat="{fmt(st_["quat"])}"'
      out.append(f'{s}  <site {sa}/>')
    for c in b['children']:
      emit(c, ind + 2)
    out.append(f'{s}</body>')

  for b in doc['top']:
    emit(b, 4)
  out += ['  </worldbody>', '</mujoco>']
  return '\n'.join(out)


def walk(doc):
  stack = [(b, None) for b in doc['top']]
  while stack:
    b, parent = stack.pop()
    yield b, parent
    for c in b['children']:
      stack.append((c, b))


def doc_labels(doc):
  labels = set()
  nt = False
  for b, parent in walk(doc):
    if not b['jointless']:
      continue
    has_q, has_p = 'quat' in b, 'pos' in b
    labels.add({(True, True): 'both', (True, False): 'quat_only', (False, True): 'pos_only', (False, False): 'neither'}[(has_q, has_p)])
    if parent is not None and parent['jointless']:
      labels.add('nested')
    if parent is None:
      labels.add('under_world')
    if has_q and abs(math.sqrt(sum(x * x for x in b['quat'])) - 1) > 1e-6:
      labels.add('nonunit_quat')
    if any('fromto' in g for g in b['geoms']):
      labels.add('fromto_in_jointless')
    if has_q and (b['geoms'] or any(not c['jointless'] for c in b['children'])):
      nt = True
  return sorted(labels), nt


def _angle(r1, r2):
  c = (np.trace(r1.T @ r2) - 1) / 2
  return float(np.arccos(np.clip(c, -1, 1)))


def compare(doc, normalise_jointless=False):
  m = phys.mods()
  mujoco, mjcf = m['mujoco'], m['mjcf']
  xml = doc_xml(doc, normalise_jointless)
  try:
    mo = mujoco.MjModel.from_xml_string(xml)
  except Exception as e:  # pylint: disable=broad-except
    raise phys.GeneratorReject(str(e)) from e
  fused_xml = mjcf.fuse_bodies(xml)
  root = ET.fromstring(fused_xml)
  for body in root.iter('body'):
    if body.find('joint') is None and body.find('freejoint') is None:
      raise Violation('jointless_left', f'fused document still contains jointless body {body.get("name")}')
  try:
    mf = mujoco.MjModel.from_xml_string(fused_xml)
  except Exception as e:  # pylint: disable=broad-except
    raise Violation('fused_invalid', f'MuJoCo refuses the fused document: {str(e)[:200]}') from e
  do, df = mujoco.MjData(mo), mujoco.MjData(mf)
  name = lambda mdl, typ, i: mujoco.mj_id2name(mdl, typ, i)
  jn = {name(mo, mujoco.mjtObj.mjOBJ_JOINT, i): i for i in range(mo.njnt)}
  jf = {name(mf, mujoco.mjtObj.mjOBJ_JOINT, i): i for i in range(mf.njnt)}
  if set(jn) != set(jf):
    raise Violation('joints_changed', f'joint names {sorted(jn)} became {sorted(jf)}')
  worst = {'position': 0.0, 'orientation': 0.0, 'mass': 0.0, 'inertia': 0.0}
  qs = doc['qseed']
  for pose in ('qpos0', 'random'):
    if pose == 'random':
      k = 0
      for jname, i in sorted(jn.items()):
        a, b = mo.jnt_qposadr[i], mf.jnt_qposadr[jf[jname]]
        if mo.jnt_type[i] == 0:
          v = np.concatenate([np.array(qs[k:k + 3]), np.array(doc['rootquat'])])
          k += 3
          do.qpos[a:a + 7] = v
          df.qpos[b:b + 7] = v
        else:
          v = qs[k % len(qs)] * (1.5 if mo.jnt_type[i] == 3 else 0.5)
          k += 1
          do.qpos[a] = v
          df.qpos[b] = v
    mujoco.mj_forward(mo, do)
    mujoco.mj_forward(mf, df)
    for typ, cnt, pos_o, mat_o, pos_f, mat_f, label in (
        (mujoco.mjtObj.mjOBJ_GEOM, mo.ngeom, do.geom_xpos, do.geom_xmat, df.geom_xpos, df.geom_xmat, 'geom'),
        (mujoco.mjtObj.mjOBJ_SITE, mo.nsite, do.site_xpos, do.site_xmat, df.site_xpos, df.site_xmat, 'site')):
      for i in range(cnt):
        nm = name(mo, typ, i)
        j = mujoco.mj_name2id(mf, typ, nm)
        if j < 0:
          raise Violation('element_lost', f'{label} {nm} missing from the fused model')
        g = _find(doc, nm)
        r1, r2 = mat_o[i].reshape(3, 3), mat_f[j].reshape(3, 3)
        if label == 'geom' and g is not None and 'fromto' in g:
          h1, h2 = mo.geom_size[i][1], mf.geom_size[j][1]
          e1 = [pos_o[i] - r1[:, 2] * h1, pos_o[i] + r1[:, 2] * h1]
          e2 = [pos_f[j] - r2[:, 2] * h2, pos_f[j] + r2[:, 2] * h2]
          e = max(np.abs(e1[0] - e2[0]).max(), np.abs(e1[1] - e2[1]).max())
          worst['position'] = max(worst['position'], e)
          if not e <= 3e-5:
            raise Violation('fromto', f'{pose}: from-to capsule {nm} end points {np.round(e1, 5).tolist()} became {np.round(e2, 5).tolist()}',
                            labels={'check': 'fromto'})
          continue
        e = np.abs(pos_o[i] - pos_f[j]).max()
        worst['position'] = max(worst['position'], e)
        if not e <= 3e-5:
          raise Violation('position', f'{pose}: {label} {nm} world position {pos_o[i]} became {pos_f[j]}', labels={'check': 'position', 'element': label})
        ang = _angle(r1, r2)
        worst['orientation'] = max(worst['orientation'], ang)
        if not ang <= 1e-4:
          raise Violation('orientation', f'{pose}: {label} {nm} world orientation changed by {ang:.3e} rad', labels={'check': 'orientation', 'element': label})
    # jointed bodies + composite inertia
    groups = _groups(doc)
    for bname, members in groups.items():
      bo = mujoco.mj_name2id(mo, mujoco.mjtObj.mjOBJ_BODY, bname)
      bf = mujoco.mj_name2id(mf, mujoco.mjtObj.mjOBJ_BODY, bname)
      if bf < 0:
        raise Violation('element_lost', f'jointed body {bname} missing from the fused model')
      e = np.abs(do.xpos[bo] - df.xpos[bf]).max()
      worst['position'] = max(worst['position'], e)
      if not e <= 3e-5:
        raise Violation('position', f'{pose}: jointed body {bname} world position {do.xpos[bo]} became {df.xpos[bf]}', labels={'check': 'position', 'element': 'body'})
      ang = _angle(do.xmat[bo].reshape(3, 3), df.xmat[bf].reshape(3, 3))
      worst['orientation'] = max(worst['orientation'], ang)
      if not ang <= 1e-4:
        raise Violation('orientation', f'{pose}: jointed body {bname} orientation changed by {ang:.3e} rad', labels={'check': 'orientation', 'element': 'body'})
      ids = [mujoco.mj_name2id(mo, mujoco.mjtObj.mjOBJ_BODY, n) for n in members]
      mass = sum(mo.body_mass[i] for i in ids)
      com = sum(mo.body_mass[i] * do.xipos[i] for i in ids) / mass
      inr = np.zeros((3, 3))
      for i in ids:
        r = do.ximat[i].reshape(3, 3)
        dd = do.xipos[i] - com
        inr += r @ np.diag(mo.body_inertia[i]) @ r.T + mo.body_mass[i] * (dd @ dd * np.eye(3) - np.outer(dd, dd))
      rf = df.ximat[bf].reshape(3, 3)
      inf = rf @ np.diag(mf.body_inertia[bf]) @ rf.T
      em = abs(mass - mf.body_mass[bf]) / mass
      ec = np.abs(com - df.xipos[bf]).max()
      ei = np.abs(inr - inf).max() / np.abs(inr).max()
      worst['mass'] = max(worst['mass'], em)
      worst['inertia'] = max(worst['inertia'], ei)
      if not em <= 5e-5:
        raise Violation('mass', f'{pose}: mass of {bname} with welded bodies {mass!r} became {mf.body_mass[bf]!r}', labels={'check': 'mass'})
      if not ec <= 3e-5:
        raise Violation('com', f'{pose}: centre of mass of {bname} {com} became {df.xipos[bf]}', labels={'check': 'com'})
      if not ei <= 5e-5:
        raise Violation('inertia', f'{pose}: world inertia of {bname} changed by rel {ei:.3e}', labels={'check': 'inertia'})
  return worst


def _find(doc, gname):
  for b, _ in walk(doc):
    for g in b['geoms']:
      if g['name'] == gname:
        return g
  return None


def _groups(doc):
  """jointed body -> names of itself and its jointless descendants welded to it."""
  out = {}
  def weld(b, acc):
    for c in b['children']:
      if c['jointless']:
        acc.append(c['name'])
        weld(c, acc)
  for b, _ in walk(doc):
    if not b['jointless']:
      acc = [b['name']]
      weld(b, acc)
      out[b['name']] = acc
  return out


def check(doc, ctx=None):
  labels, nt = doc_labels(doc)
  try:
    worst = compare(doc)
  except Violation as v:
    if 'nonunit_quat' in labels:
      # attribute to the known finding only if the same document with unit jointless quats is fine
      try:
        compare(doc, normalise_jointless=True)
      except Violation as v2:
        raise v2
      raise Violation(v.kind, v.detail + ' [passes when the jointless bodies\' quats are normalised]',
                      labels={'check': 'nonunit_jointless_quat'}) from v
    raise
  if ctx is not None:
    for k, x in worst.items():
      ctx.residual(k, x)
  nb = sum(1 for _ in walk(doc))
  return dict(fp=fingerprint(doc), nontrivial=bool(nt), labels=labels + [f'cls:{doc["cls"]}'],
              sample={'class': doc['cls'], 'bodies': nb, 'labels': labels, 'xml': doc_xml(doc)[:1500], 'worst': worst})


def tasks(tier, seed):
  q = tier == 'quick'
  return [{'kind': 'fuse', 'n': 150 if q else 3000} for _ in range(16)]


def run_task(task, ctx):
  def body(c):
    try:
      return check(c, ctx)
    except phys.GeneratorReject:
      ctx.count('generator_rejects')
      return None
  ctx.run_given(documents(), body, task['n'], task['seed'])


def replay(case, check_name=None):
  check(case)
