"""C18 - running_statistics equals the population statistics of everything seen."""

import numpy as np
from hypothesis import strategies as st

from vf.harness import Violation, fingerprint

PROPERTY = 'C18'
X64 = True
RULE = (
    'observation structure in {array, dict of arrays, dict of dict} with 1-3 float leaves (1-6 features, one optional '
    '2-D leaf) + an optional integer leaf; 2-200 samples = offset + scale*u (scale 10^[-3,3], offset of the same order, '
    'some columns constant), split by drawn cut points into 1-8 batches, each batch with 1 or 2 leading batch axes; optional '
    'integer weights in [0,4] (first batch total > 0); std bounds drawn (default, biting min, biting max). After EVERY update '
    'count/mean/variance/std are compared with NumPy weighted population statistics of the concatenation so far; then '
    'normalize/denormalize/max_abs_value. Non-trivial: >= 2 batches of different sizes, or weights not all 1. Distinct: hash of the case.')
ASSUMPTIONS = ['float64; mean abs tol 1e-12*maxabs, variance abs tol 1e-10*maxabs^2 (compared on the variance: sqrt would '
               'turn 1e-16 cancellation noise of a constant column into 1e-8)',
               'first batch has positive total weight (count 0 divides by zero: outside the documented use)']
TOLERANCES = {'mean': '1e-12*maxabs', 'variance': '1e-10*maxabs^2', 'std_consistency': 1e-12, 'roundtrip': '1e-9*maxabs'}

_c = {}


def mods():
  if not _c:
    import jax
    from jax import numpy as jp
    from brax.training.acme import running_statistics as rs
    _c.update(jax=jax, jp=jp, rs=rs)
  return _c


def _f(lo, hi):
  return st.floats(lo, hi, allow_nan=False, allow_infinity=False, width=64)


@st.composite
def cases(draw):
  kind = draw(st.sampled_from(['array', 'dict', 'nested']))
  nleaf = 1 if kind == 'array' else draw(st.integers(1, 3))
  n = draw(st.one_of(st.integers(2, 24), st.integers(2, 200)))
  leaves = []
  for i in range(nleaf):
    shape = draw(st.sampled_from([[1], [2], [3], [4], [6], [2, 3], [1, 2]]))
    k = int(np.prod(shape))
    log_scale = draw(st.sampled_from([-3, -2, -1, 0, 0, 1, 2, 3]))
    leaves.append({
        'shape': shape, 'scale': 10.0 ** log_scale * draw(_f(1.0, 9.0)),
        'offset': [10.0 ** log_scale * draw(st.one_of(_f(-9, 9), st.just(0.0))) for _ in range(k)],
        'const': [draw(st.sampled_from([False, False, False, True])) for _ in range(k)],
        'u': draw(st.lists(_f(-1, 1), min_size=n * k, max_size=n * k)),
    })
  int_leaf = None
  if kind != 'array' and draw(st.booleans()):
    int_leaf = draw(st.lists(st.integers(-5, 5), min_size=n * 2, max_size=n * 2))
  nb = draw(st.integers(1, min(8, n)))
  cuts = sorted(draw(st.lists(st.integers(1, n - 1), min_size=nb - 1, max_size=nb - 1, unique=True))) if nb > 1 else []
  weighted = draw(st.sampled_from([False, True]))
  weights = None
  if weighted:
    weights = draw(st.lists(st.integers(0, 4), min_size=n, max_size=n))
    first_end = cuts[0] if cuts else n
    if sum(weights[:first_end]) == 0:
      weights[0] = draw(st.integers(1, 4))
  return {
      'kind': kind, 'n': n, 'leaves': leaves, 'int_leaf': int_leaf, 'cuts': cuts, 'weights': weights,
      'two_axes': draw(st.lists(st.booleans(), min_size=nb, max_size=nb)),
      'bounds': draw(st.sampled_from(['default', 'default', 'min_bites', 'max_bites', 'both'])),
      'bound_frac': draw(_f(0.1, 0.9)), 'jit': draw(st.booleans()),
      'max_abs': draw(st.one_of(st.none(), _f(0.1, 3.0))),
      'int_dtype': draw(st.sampled_from(['int32', 'bool', 'uint8', 'int32'])),
  }


def build(c):
  data = []
  for lf in c['leaves']:
    k = int(np.prod(lf['shape']))
    u = np.array(lf['u'], float).reshape(c['n'], k)
    u = np.where(np.array(lf['const'])[None, :], 0.25, u)
    x = np.array(lf['offset'])[None, :] + lf['scale'] * u
    data.append(x.reshape([c['n']] + lf['shape']))
  idt = {'int32': np.int32, 'bool': np.bool_, 'uint8': np.uint8}[c.get('int_dtype', 'int32')]
  ints = None if c['int_leaf'] is None else (np.abs(np.array(c['int_leaf'])) % (2 if idt is np.bool_ else 6)).astype(idt).reshape(c['n'], 2) if idt is not np.int32 else np.array(c['int_leaf'], np.int32).reshape(c['n'], 2)
  return data, ints


def pack(kind, arrs, ints, jp, conv=None):
  conv = conv or (lambda a: jp.array(a))
  if kind == 'array':
    return conv(arrs[0])
  if kind == 'dict':
    d = {f'leaf{i}': conv(a) for i, a in enumerate(arrs)}
  else:
    d = {'inner': {f'leaf{i}': conv(a) for i, a in enumerate(arrs[1:])}, 'top': conv(arrs[0])}
    if not arrs[1:]:
      d = {'inner': {'only': conv(arrs[0])}}
  if ints is not None:
    d['count_feature'] = conv(ints)
  return d


def leaves_of(kind, tree, nleaf, has_int):
  if kind == 'array':
    return [tree], None
  if kind == 'dict':
    fl = [tree[f'leaf{i}'] for i in range(nleaf)]
  else:
    if nleaf == 1:
      fl = [tree['inner']['only']]
    else:
      fl = [tree['top']] + [tree['inner'][f'leaf{i}'] for i in range(nleaf - 1)]
  return fl, (tree['count_feature'] if has_int else None)


def check(c):
  m = mods()
  jax, jp, rs = m['jax'], m['jp'], m['rs']
  data, ints = build(c)
  n, kind = c['n'], c['kind']
  nleaf = len(data)
  w_all = None if c['weights'] is None else np.array(c['weights'], float)
  spec = pack(kind, [np.zeros(lf['shape']) for lf in c['leaves']],
              None if ints is None else np.zeros((2,), ints.dtype), jp)
  state = rs.init_state(spec)
  maxabs = [max(1e-12, float(np.max(np.abs(x)))) for x in data]
  # std bounds: computed from the true final std so that they really bite
  wts = np.ones(n) if w_all is None else w_all
  def wstats(x, w):
    sw = w.sum()
    mu = np.tensordot(w, x, axes=(0, 0)) / sw
    var = np.tensordot(w, (x - mu) ** 2, axes=(0, 0)) / sw
    return mu, var
  final_std = np.concatenate([np.sqrt(wstats(x, wts)[1]).ravel() for x in data])
  pos = final_std[final_std > 0]
  ref = float(np.median(pos)) if pos.size else 1.0
  kw = {}
  if c['bounds'] in ('min_bites', 'both'):
    kw['std_min_value'] = ref * (1 + c['bound_frac'])
  if c['bounds'] in ('max_bites', 'both'):
    kw['std_max_value'] = ref * (1 + c['bound_frac']) * (2.0 if c['bounds'] == 'both' else 0.5)
  if kw.get('std_max_value', 1e6) <= kw.get('std_min_value', 1e-6):
    # keep the documented domain min <= max
    kw['std_min_value'] = kw.get('std_max_value', 1e6) * 0.1
  smin, smax = kw.get('std_min_value', 1e-6), kw.get('std_max_value', 1e6)
  upd = rs.update
  if c['jit']:
    upd = jax.jit(lambda s, b, w: rs.update(s, b, weights=w, **kw)) if w_all is not None else \
        jax.jit(lambda s, b: rs.update(s, b, **kw))
  bounds = [0] + list(c['cuts']) + [n]
  resid = {'mean': 0.0, 'variance': 0.0}
  labels = []
  for bi in range(len(bounds) - 1):
    lo, hi = bounds[bi], bounds[bi + 1]
    size = hi - lo
    bshape = (size,)
    if c['two_axes'][bi]:
      for a in (2, 3, 5, 7):
        if size % a == 0 and size > a:
          bshape = (a, size // a)
          labels.append('two_batch_axes')
          break
    rb = lambda x: x[lo:hi].reshape(bshape + x.shape[1:])
    batch = pack(kind, [rb(x) for x in data], None if ints is None else rb(ints), jp)
    w = None if w_all is None else jp.array(w_all[lo:hi].reshape(bshape))
    if c['jit']:
      state = upd(state, batch, w) if w is not None else upd(state, batch)
    else:
      state = upd(state, batch, weights=w, **kw)
    # oracle after every update
    where = f'after batch {bi} (samples {lo}:{hi}, batch shape {bshape}, weighted={w is not None})'
    wsofar = wts[:hi]
    if abs(float(state.count) - wsofar.sum()) > 1e-9:
      raise Violation('count', f'{where}: count {float(state.count)} != total weight {wsofar.sum()}')
    means, _ = leaves_of(kind, state.mean, nleaf, ints is not None)
    svs, _ = leaves_of(kind, state.summed_variance, nleaf, ints is not None)
    stds, _ = leaves_of(kind, state.std, nleaf, ints is not None)
    for li in range(nleaf):
      mu, var = wstats(data[li][:hi], wsofar)
      gm, gsv, gstd = np.asarray(means[li]), np.asarray(svs[li]), np.asarray(stds[li])
      if gm.shape != mu.shape:
        raise Violation('shape', f'{where}: mean shape {gm.shape} != feature shape {mu.shape}')
      r = float(np.max(np.abs(gm - mu))) / maxabs[li]
      resid['mean'] = max(resid['mean'], r)
      if not r <= 1e-12:
        raise Violation('mean', f'{where}: leaf {li} mean {gm.ravel()[:4]} expected {mu.ravel()[:4]} (rel {r:.2e})')
      gvar = gsv / float(state.count)
      r = float(np.max(np.abs(gvar - var))) / maxabs[li] ** 2
      resid['variance'] = max(resid['variance'], r)
      if not r <= 1e-10:
        raise Violation('variance', f'{where}: leaf {li} variance {gvar.ravel()[:4]} expected {var.ravel()[:4]} (rel {r:.2e})')
      estd = np.clip(np.sqrt(np.maximum(gsv, 0) / float(state.count)), smin, smax)
      if not np.max(np.abs(gstd - estd)) <= 1e-12 * (1 + np.max(np.abs(estd))):
        raise Violation('std', f'{where}: leaf {li} std {gstd.ravel()[:4]} != clip(sqrt(sv/count), {smin}, {smax}) = {estd.ravel()[:4]}')
      if np.any(gstd < smin * (1 - 1e-15)) or np.any(gstd > smax * (1 + 1e-15)):
        raise Violation('std_bounds', f'{where}: std outside [{smin}, {smax}]')
  # normalise / denormalise
  xs = pack(kind, [x[:5] for x in data], None if ints is None else ints[:5], jp)
  nrm = rs.normalize(xs, state)
  back = rs.denormalize(nrm, state)
  nl, ni = leaves_of(kind, nrm, nleaf, ints is not None)
  bl, bi_ = leaves_of(kind, back, nleaf, ints is not None)
  means, _ = leaves_of(kind, state.mean, nleaf, ints is not None)
  stds, _ = leaves_of(kind, state.std, nleaf, ints is not None)
  for li in range(nleaf):
    exp = (data[li][:5] - np.asarray(means[li])) / np.asarray(stds[li])
    if not np.max(np.abs(np.asarray(nl[li]) - exp)) <= 1e-12 * (1 + np.max(np.abs(exp))):
      raise Violation('normalize', f'leaf {li}: normalize != (x - mean) / std')
    if not np.max(np.abs(np.asarray(bl[li]) - data[li][:5])) <= 1e-9 * maxabs[li]:
      raise Violation('roundtrip', f'leaf {li}: denormalize(normalize(x)) != x')
  if ints is not None:
    for name, leaf in (('normalize', ni), ('denormalize', bi_)):
      a = np.asarray(leaf)
      if a.dtype != ints.dtype or not np.array_equal(a, ints[:5]):
        raise Violation('int_leaf', f'{name} changed the integer leaf (dtype {a.dtype})')
  if c['max_abs'] is not None:
    nrm2 = rs.normalize(xs, state, max_abs_value=c['max_abs'])
    nl2, _ = leaves_of(kind, nrm2, nleaf, ints is not None)
    for li in range(nleaf):
      exp = np.clip(np.asarray(nl[li]), -c['max_abs'], c['max_abs'])
      if not np.array_equal(np.asarray(nl2[li]), exp):
        raise Violation('max_abs_value', f'leaf {li}: normalize(max_abs_value) != clip(normalize)')
  sizes = [bounds[i + 1] - bounds[i] for i in range(len(bounds) - 1)]
  nontrivial = (len(set(sizes)) >= 2) or (w_all is not None and np.any(w_all != 1))
  labels = sorted(set(labels)) + [f'kind:{kind}', f'bounds:{c["bounds"]}', 'weighted' if w_all is not None else 'unweighted',
                                  'jit' if c['jit'] else 'eager', f'batches:{min(len(sizes), 4)}{"+" if len(sizes) > 4 else ""}']
  if any(any(lf['const']) for lf in c['leaves']):
    labels.append('constant_column')
  if ints is not None:
    labels.append('nonfloat_leaf:' + str(ints.dtype))
  return dict(fp=fingerprint(c), nontrivial=bool(nontrivial), labels=labels, evals=len(sizes),
              sample={'kind': kind, 'n': n, 'batch_sizes': sizes, 'leaf_shapes': [lf['shape'] for lf in c['leaves']],
                      'scales': [lf['scale'] for lf in c['leaves']], 'weighted': w_all is not None,
                      'bounds': c['bounds'], 'std_min': smin, 'std_max': smax, 'residuals': resid}), resid


def tasks(tier, seed):
  n = 60 if tier == 'quick' else 1200
  return [{'kind': 'stats', 'n': n} for _ in range(16)]


def run_task(task, ctx):
  def body(c):
    info, resid = check(c)
    for k, v in resid.items():
      ctx.residual(k, v)
    return info
  ctx.run_given(cases(), body, task['n'], task['seed'])


def replay(case, check_name=None):
  check(case)
