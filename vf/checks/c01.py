"""C01 - kinematics.forward equals MuJoCo forward kinematics for every generated model and pose."""

import numpy as np

from vf import modelgen, phys
from vf.harness import Violation, fingerprint

PROPERTY = 'C01'
X64 = True
SHRINK = {'quick': 10, 'thorough': 60}
RULE = (
    'generator models (forests of 1-6 links, free and world-attached roots, 1-3 stacked hinge/slide joints with arbitrary '
    'axes, body/anchor/geom offsets and rotations, limits, passive terms, actuators; class chosen by the first draw so every '
    'class floor is met by construction) x K states (q in [-2,2], unit root quaternions, qd in [-1,1]); reference = MuJoCo 3.13 '
    'compiled from the same XML string. One evaluation = one (model, state) pair. Non-trivial: model has >= 2 links or a '
    'non-identity body rotation, and q is not all zero. Distinct: hash of (topology signature, rounded q, qd).')
ASSUMPTIONS = [
    'MuJoCo (float64 C library) is the trusted reference; it is given the generator string, never brax\'s loader output',
    'world velocity is claimed only for links whose whole ancestor chain is free or a single joint anchored at the link origin; '
    'other links are measured and matched against known finding C01/stacked-velocity',
]
TOLERANCES = {'position': 1e-9, 'rotation(up to sign)': 1e-9, 'unit_norm': 1e-12, 'velocity(claimed links)': 1e-8}
FLOORS = {'free_root': 0.2, 'fixed_root': 0.2, 'slide_on_rotated': 0.2, 'stack>=2': 0.25, 'anchor': 0.15, 'actuated': 0.25}


def floors(labels, programs, tier):
  return phys.floors_report(labels, programs, FLOORS)


def check(case, resid=None):
  m = phys.mods()
  jax, jp, mujoco = m['jax'], m['jp'], m['mujoco']
  spec, states = case['spec'], case['states']
  xml = modelgen.to_xml(spec)
  mjm = phys.load_mj(xml)
  sys = phys.load_brax(xml)
  phys.check_structure(sys, spec)
  q, qd, _ = phys.arr_states(states)
  k = q.shape[0]
  f = jax.jit(jax.vmap(lambda a, b: m['kinematics'].forward(sys, a, b)))
  x, xd = f(jp.array(q), jp.array(qd))
  xpos, xrot = np.asarray(x.pos), np.asarray(x.rot)
  xang, xvel = np.asarray(xd.ang), np.asarray(xd.vel)
  d = mujoco.MjData(mjm)
  simple = modelgen.simple_links(spec)
  nb = len(spec['bodies'])
  worst = {'position': 0.0, 'rotation': 0.0, 'velocity_claimed': 0.0, 'velocity_unclaimed': 0.0}
  known = None
  for s in range(k):
    phys.mj_set(mjm, d, q[s], qd[s])
    mujoco.mj_forward(mjm, d)
    ep = np.abs(xpos[s] - d.xpos[1:]).max()
    er = phys.quat_diff(xrot[s], d.xquat[1:]).max()
    en = np.abs(np.linalg.norm(xrot[s], axis=-1) - 1).max()
    worst['position'] = max(worst['position'], ep)
    worst['rotation'] = max(worst['rotation'], er)
    where = f'state {s} (q={np.round(q[s], 4).tolist()})'
    if not ep <= 1e-9:
      i = int(np.argmax(np.abs(xpos[s] - d.xpos[1:]).max(-1)))
      raise Violation('position', f'{where}: link {i} world position {xpos[s][i]} vs MuJoCo {d.xpos[1 + i]}',
                      labels={'check': 'position'})
    if not er <= 1e-9:
      i = int(np.argmax(phys.quat_diff(xrot[s], d.xquat[1:])))
      raise Violation('rotation', f'{where}: link {i} world rotation {xrot[s][i]} vs MuJoCo {d.xquat[1 + i]}',
                      labels={'check': 'rotation'})
    if not en <= 1e-12:
      raise Violation('unit_norm', f'{where}: link rotation norm off by {en:.2e}', labels={'check': 'unit_norm'})
    for i in range(nb):
      v = np.zeros(6)
      mujoco.mj_objectVelocity(mjm, d, mujoco.mjtObj.mjOBJ_XBODY, i + 1, v, 0)
      e = max(np.abs(xang[s][i] - v[:3]).max(), np.abs(xvel[s][i] - v[3:]).max())
      if simple[i]:
        worst['velocity_claimed'] = max(worst['velocity_claimed'], e)
        if not e <= 1e-8:
          raise Violation('velocity', f'{where}: link {i} world velocity ang {xang[s][i]} lin {xvel[s][i]} vs MuJoCo '
                          f'{v[:3]} {v[3:]}', labels={'check': 'velocity', 'link_class': 'simple'})
      else:
        worst['velocity_unclaimed'] = max(worst['velocity_unclaimed'], e)
        if not e <= 1e-8 and known is None:
          known = Violation('velocity', f'{where}: link {i} (stacked/offset chain) world velocity off by {e:.3e}',
                            labels={'check': 'velocity', 'link_class': 'stacked_or_offset'})
  if resid is not None:
    for n, v in worst.items():
      if n != 'velocity_unclaimed':
        resid(n, v)
  sig = modelgen.topology_signature(spec)
  nt_model = phys.nontrivial_model(spec)
  fps = [(fingerprint([sig, q[s].tolist(), qd[s].tolist()]), bool(nt_model and np.any(q[s] != 0))) for s in range(k)]
  info = dict(fps=fps, labels=modelgen.classes(spec) + ['shape:' + str([b['parent'] for b in spec['bodies']])] + (['has_unclaimed_velocity_links'] if not all(simple) else []),
              sample={'model': phys.model_summary(spec), 'q0': q[0].tolist(), 'qd0': qd[0].tolist(), 'states': k,
                      'worst_residuals': worst})
  return info, known


def tasks(tier, seed):
  q = tier == 'quick'
  out = [{'kind': 'fk', 'n': 7 if q else 120, 'k': 8 if q else 24} for _ in range(16)]
  # topology sweep: every ordered forest shape with up to 6 links at least once (quick) / 6 times (thorough)
  shapes = modelgen.enumerate_forests(6)
  nchunk = 16
  for c in range(nchunk):
    out.append({'kind': 'topology', 'shapes': shapes[c::nchunk], 'reps': 1 if q else 6, 'k': 4 if q else 12})
  return out


def run_task(task, ctx):
  def body(c):
    try:
      info, known = check(c, ctx.residual)
    except phys.GeneratorReject:
      ctx.count('generator_rejects')
      return None
    if known is not None:
      ctx.record(**info)
      raise known
    return info
  if task['kind'] == 'topology':
    from vf.harness import derive_seed
    i = 0
    for shape in task['shapes']:
      for _ in range(task['reps']):
        i += 1
        strat = modelgen.model_and_states(modelgen.profile(), k=task['k'], shape=shape)
        if ctx.run_given(strat, body, 1, derive_seed(task['seed'], i), skip_simplest=True):
          return
  else:
    ctx.run_given(modelgen.model_and_states(modelgen.profile(), k=task['k']), body, task['n'], task['seed'])


def replay(case, check_name=None):
  _, known = check(case)
  if known is not None:
    raise known
