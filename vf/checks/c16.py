"""C16 - bundled environments honour the Env contract and stay finite under the training wrappers."""

import numpy as np
from hypothesis import strategies as st

from vf.harness import Violation, fingerprint

PROPERTY = 'C16'
X64 = False
SHRINK = {'quick': 3, 'thorough': 10}
ENVS = ['ant', 'halfcheetah', 'hopper', 'humanoid', 'humanoidstandup', 'inverted_pendulum', 'inverted_double_pendulum', 'pusher',
        'reacher', 'swimmer', 'walker2d']
BACKENDS = ['generalized', 'spring', 'positional']
RULE = (
    'every registered physics environment (11) x {generalized, spring, positional} where the constructor accepts the backend (swimmer: '
    'generalized only) - each combination is one worker task, so coverage per combination is by construction - x Hypothesis-drawn reset '
    'key, action key, action kind (uniform in [-1,1], bang-bang, held-constant, zero) and episode_length in {8, 60, 1000}, float32, through '
    'training.wrap(env, episode_length, 1); quick: batch 8 x 200 steps, thorough: batch 128 x 1000 steps, one lax.scan. Oracle: '
    'observation size, done = 0 at reset, action size accepted, the whole rollout repeated from the same keys is bit-identical, member 0 '
    'is bit-identical when all other members get other keys and actions, with constant actions the second episode replays the first, an eager step of the unwrapped env evaluated twice on one State object is bit-identical, a second instance with exclude_current_positions_from_observation=False declares the size of what it returns, and at every step obs/reward/done/q/qd are finite, done in '
    '{0,1}, | |link rotation| - 1 | <= 2e-6. Non-trivial: the rollout contains a termination or truncation, or >= 200 steps with '
    '|action| > 0.5. Distinct: (env, backend, keys, action kind, episode_length).')
ASSUMPTIONS = ['the property quantifies over all action sequences; a sampled search only covers the sequences run (stated in the evidence)',
               'action sequences are expanded from a Hypothesis-drawn key with jax.random (a deterministic function of the drawn case)',
               'brax.v1 import stubbed']
TOLERANCES = {'unit_rotation(float32)': 2e-6, 'determinism': 0.0, 'independence': 0.0}
_c = {}


def mods():
  if not _c:
    from vf.stubs import stub_v1
    stub_v1()
    import jax
    from jax import numpy as jp
    from brax import envs
    from brax.envs.wrappers import training
    _c.update(jax=jax, jp=jp, envs=envs, training=training, fns={})
  return _c


def combos():
  out = []
  for e in ENVS:
    for b in BACKENDS:
      if e == 'swimmer' and b != 'generalized':
        continue
      out.append((e, b))
  return out


def build(env_name, backend, ep_len, batch, nsteps):
  m = mods()
  jax, jp = m['jax'], m['jp']
  key = (env_name, backend, ep_len, batch, nsteps)
  if key in m['fns']:
    return m['fns'][key]
  env = m['envs'].get_environment(env_name, backend=backend)
  wenv = m['training'].wrap(env, episode_length=ep_len, action_repeat=1)
  asz = env.action_size

  def actions(akey, kind):
    u = jax.random.uniform(akey, (nsteps, batch, asz), minval=-1.0, maxval=1.0)
    bang = jp.sign(u)
    held = jp.broadcast_to(u[:1], u.shape)
    zero = jp.zeros_like(u)
    return jp.stack([u, bang, held, zero])[kind]

  def rollout(reset_keys, acts):
    state = wenv.reset(reset_keys)
    def f(s, a):
      s = wenv.step(s, a)
      ps = s.pipeline_state
      fin = (jp.all(jp.isfinite(s.obs), axis=-1) & jp.isfinite(s.reward) & jp.isfinite(s.done)
             & jp.all(jp.isfinite(ps.q), axis=-1) & jp.all(jp.isfinite(ps.qd), axis=-1))
      rotdev = jp.max(jp.abs(jp.linalg.norm(ps.x.rot, axis=-1) - 1.0), axis=-1)
      return s, (fin, s.done, rotdev, s.info['truncation'], s.obs[0], s.reward[0])
    final, (fin, done, rotdev, trunc, obs0, rew0) = jax.lax.scan(f, state, acts)
    return {'reset_obs': state.obs, 'reset_done': state.done, 'fin': fin, 'done': done, 'rotdev': rotdev, 'trunc': trunc,
            'obs0': obs0, 'rew0': rew0, 'final_obs': final.obs, 'final_q': final.pipeline_state.q}

  fns = (env, jax.jit(actions, static_argnums=1), jax.jit(rollout))
  m['fns'][key] = fns
  return fns


KINDS = ['uniform', 'bang_bang', 'held', 'zero']
LAYOUT_KWARG = ('ant', 'halfcheetah', 'hopper', 'humanoid', 'walker2d')   # constructors with exclude_current_positions_from_observation


def check(c, ctx=None):
  m = mods()
  jax, jp = m['jax'], m['jp']
  env, actions, rollout = build(c['env'], c['backend'], c['episode_length'], c['batch'], c['nsteps'])
  b = c['batch']
  rkeys = jax.random.split(jp.array(np.array(c['reset_key'], np.uint32)), b)
  acts = actions(jp.array(np.array(c['action_key'], np.uint32)), KINDS.index(c['kind']))
  if acts.shape[-1] != env.action_size:
    raise Violation('action_size', f'declared action_size {env.action_size}')
  o = {k: np.asarray(v) for k, v in rollout(rkeys, acts).items()}
  where = f'{c["env"]}/{c["backend"]} (episode_length {c["episode_length"]}, {c["kind"]} actions)'
  osz = env.observation_size
  if o['reset_obs'].shape != (b, osz):
    raise Violation('observation_size', f'{where}: reset observation shape {o["reset_obs"].shape}, declared observation_size {osz}',
                    labels={'check': 'observation_size', 'env': c['env']})
  if np.any(o['reset_done'] != 0):
    raise Violation('reset_done', f'{where}: done != 0 right after reset', labels={'check': 'reset_done', 'env': c['env']})
  if not np.all(np.isfinite(o['reset_obs'])):
    raise Violation('finite', f'{where}: reset observation not finite', labels={'check': 'finite', 'env': c['env']})
  if not np.all(o['fin']):
    t, i = np.argwhere(~o['fin'])[0]
    raise Violation('finite', f'{where}: obs/reward/done/q/qd not finite at step {t}, member {i}', labels={'check': 'finite', 'env': c['env'], 'backend': c['backend']})
  if not np.all((o['done'] == 0) | (o['done'] == 1)):
    t, i = np.argwhere((o['done'] != 0) & (o['done'] != 1))[0]
    raise Violation('done_flag', f'{where}: done = {o["done"][t, i]} at step {t}, member {i}', labels={'check': 'done_flag', 'env': c['env']})
  rd = float(o['rotdev'].max())
  if ctx is not None:
    ctx.residual(f'rotation_norm_{c["backend"]}', rd)
  if not rd <= 2e-6:
    t, i = np.unravel_index(np.argmax(o['rotdev']), o['rotdev'].shape)
    raise Violation('unit_rotation', f'{where}: a link rotation is off the unit sphere by {rd:.3e} at step {t}, member {i}',
                    labels={'check': 'unit_rotation', 'env': c['env'], 'backend': c['backend']})
  # deterministic: same keys and actions, same rollout
  o2 = {k: np.asarray(v) for k, v in rollout(rkeys, acts).items()}
  for k in o:
    if not np.array_equal(o[k], o2[k], equal_nan=True):
      raise Violation('determinism', f'{where}: two rollouts from the same key and actions differ in {k}', labels={'check': 'determinism', 'env': c['env']})
  # pure function of its own key and actions: member 0 must not see the other members
  rk3 = jax.random.split(jp.array(np.array(c['other_key'], np.uint32)), b).at[0].set(rkeys[0])
  a3 = actions(jp.array(np.array(c['other_key'], np.uint32)), (KINDS.index(c['kind']) + 1) % 3).at[:, 0].set(acts[:, 0])
  o3 = {k: np.asarray(v) for k, v in rollout(rk3, a3).items()}
  for k in ('obs0', 'rew0'):
    if not np.array_equal(o[k], o3[k], equal_nan=True):
      t = int(np.argwhere(np.any(np.atleast_2d((o[k] != o3[k]).reshape(o[k].shape[0], -1)), axis=1))[0][0])
      raise Violation('independence', f'{where}: member 0 ({k}) changes at step {t} when the other members get other keys/actions',
                      labels={'check': 'independence', 'env': c['env']})
  for k in ('done', 'trunc'):
    if not np.array_equal(o[k][:, 0], o3[k][:, 0]):
      raise Violation('independence', f'{where}: member 0 {k} history changes when the other members change', labels={'check': 'independence', 'env': c['env']})
  # constant actions: AutoResetWrapper restores the first state, so every later episode of a member must replay its
  # first episode exactly (nothing may leak across the episode boundary through metrics or info)
  replayed = False
  if c['kind'] in ('held', 'zero'):
    ends = np.flatnonzero(o['done'][:, 0] == 1)
    if len(ends) >= 2:
      l1, l2 = ends[0] + 1, ends[1] - ends[0]
      n = min(l1, l2)
      a, b_ = slice(0, n), slice(l1, l1 + n)
      replayed = True
      for k in ('rew0', 'obs0'):
        if not np.array_equal(o[k][a], o[k][b_], equal_nan=True):
          t = int(np.argwhere(np.any(np.atleast_2d((o[k][a] != o[k][b_]).reshape(n, -1)), axis=1))[0][0])
          raise Violation('episode_replay', f'{where}: with constant actions the second episode of member 0 differs from its first in {k} at episode '
                          f'step {t} ({o[k][a][t]} vs {o[k][b_][t]}): something other than the reset state and the actions enters the step',
                          labels={'check': 'episode_replay', 'env': c['env']})
  # eager purity of the unwrapped environment: stepping the same State object twice gives the same result (every
  # bundled step() mutates state.metrics in place; nothing may read it back)
  eager = False
  if c.get('eager'):
    eager = True
    s0 = jax.jit(env.reset)(rkeys[0])
    outs = [env.step(s0, acts[0, 0]) for _ in range(2)]
    for name, get in (('reward', lambda s: s.reward), ('obs', lambda s: s.obs), ('done', lambda s: s.done), ('q', lambda s: s.pipeline_state.q)):
      u, v = np.asarray(get(outs[0])), np.asarray(get(outs[1]))
      if not np.array_equal(u, v, equal_nan=True):
        raise Violation('eager_purity', f'{where}: env.step(state, action) evaluated twice (eagerly) on the same State object returns two different '
                        f'{name}: {u} vs {v}', labels={'check': 'eager_purity', 'env': c['env']})
  # a second instance of the same class and backend with another observation layout, in the same process, after the first
  # instance's size has been queried: each instance must declare the size of what *it* returns
  variant = False
  if c.get('eager') and c['env'] in LAYOUT_KWARG:
    variant = True
    env2 = m['envs'].get_environment(c['env'], backend=c['backend'], exclude_current_positions_from_observation=False)
    for e_, what in ((env2, 'exclude_current_positions_from_observation=False'), (env, 'default')):
      shp = np.asarray(jax.jit(e_.reset)(rkeys[0]).obs).shape
      if shp != (e_.observation_size,):
        raise Violation('observation_size', f'{where}: instance constructed with {what} (second instance of this class in the process) returns observations '
                        f'of shape {shp} and declares observation_size {e_.observation_size}', labels={'check': 'observation_size', 'env': c['env']})
  ended = bool(o['done'].any())
  nt = ended or (c['kind'] in ('uniform', 'bang_bang') and c['nsteps'] >= 200)
  return dict(fp=fingerprint(c), nontrivial=bool(nt), evals=c['batch'] * c['nsteps'],
              labels=[f'env:{c["env"]}', f'backend:{c["backend"]}', f'kind:{c["kind"]}', f'episode_length:{c["episode_length"]}',
                      'has_episode_end' if ended else 'no_episode_end', 'episode_replay_checked' if replayed else 'no_replay_check', 'eager_purity_checked' if eager else 'no_eager_check', 'layout_variant_checked' if variant else 'no_layout_variant', 'has_truncation' if o['trunc'].any() else 'no_truncation'],
              sample={k: c[k] for k in ('env', 'backend', 'kind', 'episode_length', 'batch', 'nsteps', 'reset_key', 'action_key')} |
              {'episode_ends': int(o['done'].sum()), 'truncations': int(o['trunc'].sum()), 'max_rotation_norm_error': rd})


@st.composite
def cases(draw, env, backend, batch, nsteps, ep_lens, kinds=None, eager=False):
  k32 = st.lists(st.integers(0, 2**32 - 1), min_size=2, max_size=2)
  return {'env': env, 'backend': backend, 'batch': batch, 'nsteps': nsteps, 'episode_length': draw(st.sampled_from(ep_lens)),
          'kind': draw(st.sampled_from(kinds or (KINDS[:3] + ['uniform', 'bang_bang', 'zero']))), 'reset_key': draw(k32), 'action_key': draw(k32),
          'other_key': draw(k32), 'eager': eager}


COST = {'humanoid': 4, 'humanoidstandup': 4, 'ant': 3, 'walker2d': 2, 'halfcheetah': 2, 'hopper': 2, 'pusher': 2, 'swimmer': 1}


def tasks(tier, seed):
  q = tier == 'quick'
  out = []
  for e, b in combos():
    out.append({'kind': 'env', 'env': e, 'backend': b, 'batch': 8 if q else 128, 'nsteps': 200 if q else 1000,
                'ep_lens': [60] if q else [8, 60, 1000], 'n': 1 if q else 3})
  if q:
    # short episodes (termination on the time-limit step, many auto-resets) on the cheap environments
    for e in ('inverted_pendulum', 'inverted_double_pendulum', 'reacher'):
      for b in BACKENDS:
        out.append({'kind': 'env', 'env': e, 'backend': b, 'batch': 8, 'nsteps': 200, 'ep_lens': [8], 'n': 1})
  out.sort(key=lambda t: -COST.get(t['env'], 1) * (2 if t['backend'] == 'generalized' else 1))
  return out


def run_task(task, ctx):
  strat = cases(task['env'], task['backend'], task['batch'], task['nsteps'], task['ep_lens'])
  if ctx.run_given(strat, lambda c: check(c, ctx), task['n'], task['seed'], skip_simplest=True):
    return
  # one more rollout with constant actions for every combination: the episode-replay oracle needs them
  from vf.harness import derive_seed
  const = cases(task['env'], task['backend'], task['batch'], task['nsteps'], [e for e in task['ep_lens'] if e <= 60] or task['ep_lens'],
                kinds=['held', 'zero', 'held'], eager=True)
  ctx.run_given(const, lambda c: check(c, ctx), 1, derive_seed(task['seed'], 'const'), skip_simplest=True)


def replay(case, check_name=None):
  check(case)
