"""C20 - NormalTanhDistribution is a correct probability model; PPO policy returns exactly it."""

import math

import numpy as np
from hypothesis import strategies as st

from vf.harness import Violation, fingerprint

PROPERTY = 'C20'
X64 = True
RULE = (
    'dist: event size 1-6, 0-2 batch axes (sizes 1-3), loc in [-10,10], raw scale in [-20,20], pre-squash actions '
    'in [-40,40] plus {0,+-1e-8,+-1e3}, min_std and var_scale in [1e-3,2] (plus the defaults 0.001, 1), keys = two '
    'drawn uint32; oracle = NumPy normal log-density minus an independently written stable log sech^2, quadrature of '
    'the squashed density, entropy, inverse, reparameterisation. sampler: 4096 keys split from a drawn key, moments '
    'of standardised raw samples. ppo: make_ppo_networks with running_statistics.normalize, array and dict '
    'observations with every policy_obs_key, non-trivial mean/std, logits recomputed by a hand-written NumPy MLP. '
    'Non-trivial: some |x| > 5 (saturated tanh) or some scale < 0.01 (dist); mean/std not (0,1) (ppo). Distinct: hash of the case.')
ASSUMPTIONS = [
    'min_std, var_scale drawn from [1e-3, 2] rather than (0, 2]: below that the reference itself loses precision',
    'log_prob tolerance 1e-9 relative to 1 + sum of |terms| (brax forms x/scale - loc/scale, which cancels)',
    'sampler moments: 6 standard errors on the mean, 7 on the variance (false alarm < 1e-8 per case)',
]
TOLERANCES = {'log_prob': 1e-9, 'normalisation': 1e-6, 'entropy': 1e-9, 'inverse(|x|<8)': 1e-8,
              'ldj_even': 1e-12, 'reparam': '1e-11*(1+|loc|/scale)', 'ppo_logits': 1e-9}

LOG2PI = math.log(2 * math.pi)
_c = {}


def mods():
  if not _c:
    from vf.stubs import stub_v1
    stub_v1()
    import jax
    from jax import numpy as jp
    from brax.training import distribution
    _c.update(jax=jax, jp=jp, distribution=distribution)
  return _c


def np_softplus(s):
  return np.logaddexp(0.0, s)


def np_log_sech2(x):
  a = np.abs(x)
  return 2.0 * (math.log(2.0) - a - np.log1p(np.exp(-2.0 * a)))


def np_log_prob_terms(loc, scale, x):
  z = (x - loc) / scale
  return -0.5 * z * z, -0.5 * LOG2PI - np.log(scale), -np_log_sech2(x)


def _f(lo, hi):
  return st.floats(lo, hi, allow_nan=False, allow_infinity=False, width=64)


def _std():
  return st.one_of(_f(1e-3, 2.0), st.sampled_from([0.001, 1.0, 2.0, 0.01]))


@st.composite
def dist_cases(draw):
  e = draw(st.integers(1, 6))
  batch = draw(st.lists(st.integers(1, 3), min_size=0, max_size=2))
  n = int(np.prod(batch)) * e if batch else e
  vec = lambda el: draw(st.lists(el, min_size=n, max_size=n))
  xel = st.one_of(_f(-40, 40), _f(-3, 3), st.sampled_from([0.0, 1e-8, -1e-8, 1e3, -1e3, 40.0, -40.0, 20.0]))
  return {
      'E': e, 'batch': batch,
      'loc': vec(st.one_of(_f(-10, 10), st.sampled_from([0.0, 10.0, -10.0]))),
      'raw_scale': vec(st.one_of(_f(-20, 20), st.sampled_from([0.0, -20.0, 20.0]))),
      'x': vec(xel),
      'min_std': draw(_std()), 'var_scale': draw(_std()),
      'key': draw(st.lists(st.integers(0, 2**32 - 1), min_size=2, max_size=2)),
      'loc2': vec(_f(-10, 10)), 'raw_scale2': vec(_f(-5, 5)),
  }


def _key(k):
  return np.array(k, dtype=np.uint32)


def check_dist(c):
  m = mods()
  jax, jp, distribution = m['jax'], m['jp'], m['distribution']
  e = c['E']
  shape = tuple(c['batch']) + (e,)
  loc = np.array(c['loc'], float).reshape(shape)
  rs = np.array(c['raw_scale'], float).reshape(shape)
  x = np.array(c['x'], float).reshape(shape)
  min_std, var_scale = float(c['min_std']), float(c['var_scale'])
  d = distribution.NormalTanhDistribution(event_size=e, min_std=min_std, var_scale=var_scale)
  if d.param_size != 2 * e:
    raise Violation('param_size', f'{d.param_size} != {2 * e}')
  params = jp.array(np.concatenate([loc, rs], axis=-1))
  key = jp.array(_key(c['key']))
  scale = (np_softplus(rs) + min_std) * var_scale
  resid = {}

  nd = d.create_dist(params)
  bscale, bloc = np.asarray(nd.scale), np.asarray(nd.loc)
  if not np.all(bscale >= min_std * var_scale):
    raise Violation('scale_floor', f'scale {bscale.min()!r} < floor {min_std * var_scale!r}')
  r = np.max(np.abs(bscale - scale) / scale)
  resid['scale'] = r
  if not r <= 1e-12:
    raise Violation('scale', f'scale differs from (softplus(s)+min_std)*var_scale by rel {r:.3e}')
  if not np.array_equal(bloc, loc):
    raise Violation('loc', 'location parameter not passed through')

  mode = np.asarray(d.mode(params))
  if not (np.all(np.isfinite(mode)) and np.all(np.abs(mode) <= 1.0)):
    raise Violation('mode_range', f'mode outside [-1,1] or not finite: {mode.ravel()[:6]}')
  r = np.max(np.abs(mode - np.tanh(loc)))
  if not r <= 1e-15:
    raise Violation('mode', f'mode != tanh(loc), diff {r:.3e}')

  raw = np.asarray(d.sample_no_postprocessing(params, key))
  smp = np.asarray(d.sample(params, key))
  smp2 = np.asarray(d.sample(params, key))
  if smp.shape != shape:
    raise Violation('sample_shape', f'{smp.shape} != {shape}')
  if not (np.all(np.isfinite(smp)) and np.all(np.abs(smp) <= 1.0)):
    raise Violation('sample_range', f'sample outside [-1,1] or not finite: {smp.ravel()[:6]}')
  if not np.array_equal(smp, smp2):
    raise Violation('sample_deterministic', 'same key gave different samples')
  if not np.max(np.abs(smp - np.tanh(raw))) <= 1e-15:
    raise Violation('sample_is_tanh_raw', 'sample != tanh(sample_no_postprocessing) for the same key')
  if not np.max(np.abs(np.asarray(d.postprocess(jp.array(x))) - np.tanh(x))) <= 1e-15:
    raise Violation('postprocess', 'postprocess != tanh')

  # log_prob against the independent reference
  lp = np.asarray(d.log_prob(params, jp.array(x)))
  t1, t2, t3 = np_log_prob_terms(loc, scale, x)
  exp = np.sum(t1 + t2 + t3, axis=-1)
  mag = 1.0 + np.sum(np.abs(t1) + np.abs(t2) + np.abs(t3), axis=-1)
  if lp.shape != exp.shape:
    raise Violation('log_prob_shape', f'{lp.shape} != {exp.shape}')
  if not np.all(np.isfinite(lp)):
    raise Violation('log_prob_finite', f'log_prob not finite for x={x.ravel()[:6]}')
  r = np.max(np.abs(lp - exp) / mag)
  resid['log_prob'] = r
  if not r <= 1e-9:
    i = np.unravel_index(np.argmax(np.abs(lp - exp) / mag), lp.shape) if lp.shape else ()
    raise Violation('log_prob', f'log_prob {lp[i]!r} expected {exp[i]!r} (x={x[i]}, loc={loc[i]}, scale={scale[i]})')

  # log-det-jacobian: finite, even, equals the independent stable form
  bij = distribution.TanhBijector()
  ldj = np.asarray(bij.forward_log_det_jacobian(jp.array(x)))
  ldjm = np.asarray(bij.forward_log_det_jacobian(jp.array(-x)))
  if not np.all(np.isfinite(ldj)):
    raise Violation('ldj_finite', 'forward_log_det_jacobian not finite')
  ref = np_log_sech2(x)
  r = np.max(np.abs(ldj - ref) / (1 + np.abs(ref)))
  resid['ldj'] = r
  if not r <= 1e-12:
    raise Violation('ldj', f'log-derivative of tanh off by rel {r:.3e} at x={x.ravel()[np.argmax(np.abs(ldj - ref).ravel())]}')
  r = np.max(np.abs(ldj - ldjm) / (1 + np.abs(ref)))
  if not r <= 1e-12:
    raise Violation('ldj_even', f'log-derivative not even in x: {r:.3e}')
  small = np.abs(x) < 5
  if np.any(small):
    naive = np.log1p(-np.tanh(x[small]) ** 2)
    r = np.max(np.abs(ldj[small] - naive))
    if not r <= 1e-9:
      raise Violation('ldj_vs_naive', f'differs from log(1-tanh^2) by {r:.3e} for |x|<5')

  # normalisation of the squashed density (event size 1, first batch element)
  if e == 1:
    l0, s0 = float(loc.ravel()[0]), float(scale.ravel()[0])
    p0 = jp.array([[l0, float(rs.ravel()[0])]])
    xs = np.linspace(l0 - 12 * s0, l0 + 12 * s0, 2401)
    lps = np.asarray(d.log_prob(jp.tile(p0, (xs.size, 1)), jp.array(xs[:, None])))
    integrand = np.exp(lps + np_log_sech2(xs))
    h = xs[1] - xs[0]
    total = h * (np.sum(integrand) - 0.5 * (integrand[0] + integrand[-1]))
    resid['normalisation'] = abs(total - 1)
    if not abs(total - 1) <= 1e-6 + 1e-13 * (abs(l0) + 12 * s0) / s0:
      raise Violation('normalisation', f'density of the squashed action integrates to {total!r} (loc={l0}, scale={s0})')

  # entropy = normal entropy + E-term at the same key's sample
  ent = np.asarray(d.entropy(params, key))
  exp_ent = np.sum(0.5 + 0.5 * LOG2PI + np.log(scale) + np_log_sech2(raw), axis=-1)
  r = np.max(np.abs(ent - exp_ent) / (1 + np.abs(exp_ent) + np.sum(np.abs(np_log_sech2(raw)), -1)))
  resid['entropy'] = r
  if not r <= 1e-9:
    raise Violation('entropy', f'entropy {ent.ravel()[:3]} expected {exp_ent.ravel()[:3]}')

  # inverse
  xin = np.clip(x, -8, 8)
  back = np.asarray(d.inverse_postprocess(d.postprocess(jp.array(xin))))
  r = np.max(np.abs(back - xin))
  resid['inverse'] = r
  if not r <= 1e-8:
    raise Violation('inverse', f'inverse_postprocess(postprocess(x)) off by {r:.3e}')

  # reparameterisation: standardised raw sample does not depend on the parameters
  loc2 = np.array(c['loc2'], float).reshape(shape)
  rs2 = np.array(c['raw_scale2'], float).reshape(shape)
  scale2 = (np_softplus(rs2) + min_std) * var_scale
  raw2 = np.asarray(d.sample_no_postprocessing(jp.array(np.concatenate([loc2, rs2], -1)), key))
  z1, z2 = (raw - loc) / scale, (raw2 - loc2) / scale2
  tol = 1e-11 * (1 + np.abs(loc) / scale + np.abs(loc2) / scale2 + np.abs(z1))
  if not np.all(np.abs(z1 - z2) <= tol):
    raise Violation('reparameterised', f'standardised sample depends on parameters: {np.max(np.abs(z1 - z2)):.3e}')
  # d sample / d loc = sech^2(raw)
  def samp(l):
    return d.sample(jp.concatenate([l, jp.array(rs)], -1), key)
  tang = np.asarray(jax.jvp(samp, (jp.array(loc),), (jp.ones_like(jp.array(loc)),))[1])
  expj = 1.0 - np.tanh(raw) ** 2
  if not np.all(np.abs(tang - expj) <= 1e-9 * (1 + expj) + 1e-13):
    raise Violation('sample_gradient', f'd sample/d loc != sech^2(raw): {np.max(np.abs(tang - expj)):.3e}')

  nontrivial = bool(np.any(np.abs(x) > 5) or np.any(scale < 0.01))
  labels = ['dist', f'E{e}', f'batch_axes{len(c["batch"])}']
  if np.any(np.abs(x) > 15):
    labels.append('saturated')
  return dict(fp=fingerprint(c), nontrivial=nontrivial, labels=labels,
              sample={'check': 'dist', 'event_size': e, 'batch': c['batch'], 'loc': c['loc'][:6],
                      'raw_scale': c['raw_scale'][:6], 'x': c['x'][:6], 'min_std': min_std,
                      'var_scale': var_scale, 'residuals': resid}), resid


# -- sampler moments ---------------------------------------------------------

@st.composite
def sampler_cases(draw):
  e = draw(st.integers(1, 4))
  return {'E': e, 'loc': draw(st.lists(_f(-10, 10), min_size=e, max_size=e)),
          'raw_scale': draw(st.lists(_f(-5, 5), min_size=e, max_size=e)),
          'key': draw(st.lists(st.integers(0, 2**32 - 1), min_size=2, max_size=2))}


def check_sampler(c):
  m = mods()
  jax, jp, distribution = m['jax'], m['jp'], m['distribution']
  e = c['E']
  d = distribution.NormalTanhDistribution(event_size=e)
  loc, rs = np.array(c['loc'], float), np.array(c['raw_scale'], float)
  scale = np_softplus(rs) + 0.001
  params = jp.array(np.concatenate([loc, rs]))
  keys = jax.random.split(jp.array(_key(c['key'])), 4096)
  raw = np.asarray(jax.vmap(lambda k: d.sample_no_postprocessing(params, k))(keys))
  z = (raw - loc) / scale
  n = z.shape[0]
  mean, var = z.mean(0), z.var(0)
  if not np.all(np.abs(mean) <= 6 / math.sqrt(n)):
    raise Violation('sampler_mean', f'standardised sample mean {mean} over {n} keys')
  if not np.all(np.abs(var - 1) <= 7 * math.sqrt(2 / n)):
    raise Violation('sampler_variance', f'standardised sample variance {var} over {n} keys')
  # agrees with the density it reports: mean log_prob of own samples = -entropy of the normal + E[ldj]
  return dict(fp=fingerprint(c), nontrivial=True, labels=['sampler'],
              sample={'check': 'sampler', 'keys': n, 'mean': mean.tolist(), 'var': var.tolist()})


# -- PPO policy ---------------------------------------------------------------

@st.composite
def ppo_cases(draw):
  kind = draw(st.sampled_from(['array', 'dict', 'dict']))
  act = draw(st.integers(1, 3))
  hidden = draw(st.sampled_from([[4], [3, 5], [2, 2, 2]]))
  batch = draw(st.integers(1, 3))
  def feats(n):
    return {
        'obs': draw(st.lists(st.lists(_f(-5, 5), min_size=n, max_size=n), min_size=batch, max_size=batch)),
        'mean': draw(st.lists(_f(-3, 3), min_size=n, max_size=n)),
        'std': draw(st.lists(_f(0.2, 4.0), min_size=n, max_size=n)),
    }
  if kind == 'array':
    n = draw(st.integers(1, 5))
    groups = {'state': feats(n)}
    key_name = 'state'
  else:
    names = draw(st.sampled_from([['state', 'priv'], ['state', 'aux', 'priv'], ['a', 'state']]))
    same = draw(st.booleans())
    n0 = draw(st.integers(1, 4))
    groups = {nm: feats(n0 if same else draw(st.integers(1, 4))) for nm in names}
    key_name = draw(st.sampled_from(names))
  return {'kind': kind, 'act': act, 'hidden': hidden, 'batch': batch, 'groups': groups, 'obs_key': key_name,
          'init_key': draw(st.integers(0, 2**31 - 1)),
          'key': draw(st.lists(st.integers(0, 2**32 - 1), min_size=2, max_size=2)),
          'fresh_stats': draw(st.sampled_from([False, False, False, True]))}


def check_ppo(c):
  m = mods()
  jax, jp = m['jax'], m['jp']
  from brax.training.acme import running_statistics
  from brax.training.agents.ppo import networks as ppo_networks
  act = c['act']
  g = c['groups']
  arr = lambda nm, f: np.array(g[nm][f], float)
  if c['kind'] == 'array':
    obs = jp.array(arr('state', 'obs'))
    obs_size = obs.shape[-1]
    mean, std = jp.array(arr('state', 'mean')), jp.array(arr('state', 'std'))
  else:
    obs = {nm: jp.array(arr(nm, 'obs')) for nm in g}
    obs_size = {nm: (arr(nm, 'obs').shape[-1],) for nm in g}
    mean = {nm: jp.array(arr(nm, 'mean')) for nm in g}
    std = {nm: jp.array(arr(nm, 'std')) for nm in g}
  if c['fresh_stats']:
    mean = jax.tree_util.tree_map(jp.zeros_like, mean)
    std = jax.tree_util.tree_map(jp.ones_like, std)
  nets = ppo_networks.make_ppo_networks(
      obs_size, act, preprocess_observations_fn=running_statistics.normalize,
      policy_hidden_layer_sizes=tuple(c['hidden']), value_hidden_layer_sizes=(4,),
      policy_obs_key=c['obs_key'], value_obs_key=c['obs_key'])
  pparams = nets.policy_network.init(jax.random.PRNGKey(c['init_key']))
  norm = running_statistics.NestedMeanStd(mean=mean, std=std)
  make_policy = ppo_networks.make_inference_fn(nets)
  key = jp.array(_key(c['key']))
  # independent logits: hand-written MLP on the normalised observation of the selected key
  k = c['obs_key']
  o = arr(k, 'obs')
  if not c['fresh_stats']:
    o = (o - arr(k, 'mean')) / arr(k, 'std')
  h = o
  layers = pparams['params']
  nl = len(c['hidden']) + 1
  for i in range(nl):
    w = np.asarray(layers[f'hidden_{i}']['kernel'], float)
    b = np.asarray(layers[f'hidden_{i}']['bias'], float)
    h = h @ w + b
    if i != nl - 1:
      h = h / (1 + np.exp(-h))  # swish
  logits = h
  loc, rs = logits[..., :act], logits[..., act:]
  scale = np_softplus(rs) + 0.001

  a_det, extras_det = make_policy((norm, pparams), deterministic=True)(obs, key)
  if extras_det != {}:
    raise Violation('ppo_deterministic_extras', f'deterministic policy returned extras {list(extras_det)}')
  r = np.max(np.abs(np.asarray(a_det) - np.tanh(loc)))
  if not r <= 1e-9:
    raise Violation('ppo_deterministic', f'deterministic action != tanh(loc of normalised {k!r} observation): {r:.3e}')
  a, extras = make_policy((norm, pparams), deterministic=False)(obs, key)
  a = np.asarray(a)
  if set(extras) != {'log_prob', 'raw_action'}:
    raise Violation('ppo_extras', f'extras keys {sorted(extras)}')
  raw = np.asarray(extras['raw_action'])
  if not (np.all(np.abs(a) <= 1) and np.max(np.abs(a - np.tanh(raw))) <= 1e-15):
    raise Violation('ppo_action', 'action != tanh(raw_action)')
  t1, t2, t3 = np_log_prob_terms(loc, scale, raw)
  exp = np.sum(t1 + t2 + t3, -1)
  mag = 1 + np.sum(np.abs(t1) + np.abs(t2) + np.abs(t3), -1)
  lp = np.asarray(extras['log_prob'])
  r = np.max(np.abs(lp - exp) / mag)
  if not r <= 1e-9:
    raise Violation('ppo_log_prob', f'log_prob {lp.ravel()[:3]} expected {exp.ravel()[:3]} from independently computed logits')
  # the raw action is the reparameterised sample of those logits under the same key
  z = (raw - loc) / scale
  zref = np.asarray(jax.random.normal(key, raw.shape))
  if not np.max(np.abs(z - zref)) <= 1e-9 * (1 + np.max(np.abs(loc) / scale)):
    raise Violation('ppo_raw_action', 'raw_action is not loc + scale * normal(key) for the recomputed logits')
  a2, _ = make_policy((norm, pparams), deterministic=False)(obs, key)
  if not np.array_equal(np.asarray(a2), a):
    raise Violation('ppo_deterministic_in_key', 'same key, different action')
  nontrivial = not c['fresh_stats']
  labels = ['ppo', 'obs:' + c['kind']]
  if c['kind'] == 'dict':
    labels.append('key_is_state' if k == 'state' else 'key_not_state')
  return dict(fp=fingerprint(c), nontrivial=nontrivial, labels=labels,
              sample={'check': 'ppo', 'obs_kind': c['kind'], 'policy_obs_key': k, 'action_size': act,
                      'hidden': c['hidden'], 'groups': {nm: {'n': len(g[nm]['mean'])} for nm in g},
                      'fresh_stats': c['fresh_stats']})


def tasks(tier, seed):
  q = tier == 'quick'
  out = []
  for _ in range(10):
    out.append({'kind': 'dist', 'n': 120 if q else 2500})
  for _ in range(2):
    out.append({'kind': 'sampler', 'n': 20 if q else 300})
  for _ in range(4):
    out.append({'kind': 'ppo', 'n': 50 if q else 800})
  return out


def run_task(task, ctx):
  k = task['kind']
  if k == 'dist':
    def body(c):
      info, resid = check_dist(c)
      for n, v in resid.items():
        ctx.residual(n, v)
      return info
    ctx.run_given(dist_cases(), body, task['n'], task['seed'], check='dist')
  elif k == 'sampler':
    ctx.run_given(sampler_cases(), check_sampler, task['n'], task['seed'], check='sampler')
  else:
    ctx.run_given(ppo_cases(), check_ppo, task['n'], task['seed'], check='ppo')


def replay(case, check=None):
  if check == 'ppo' or 'groups' in case:
    check_ppo(case)
  elif check == 'sampler' or 'x' not in case:
    check_sampler(case)
  else:
    check_dist(case)
