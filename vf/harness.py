"""Shared machinery: task pool, Hypothesis driver, evidence, replay, known findings.

A check module (vf/checks/cXX.py) defines

  PROPERTY      'C09'
  RULE          how cases are generated and what makes one non-trivial / distinct
  ASSUMPTIONS   list of strings
  TOLERANCES    dict (reported in the evidence)
  tasks(tier, seed) -> list of JSON-able task dicts (each has at least 'kind')
  run_task(task, ctx) -> None      executed in a worker process
  replay(case) -> None             re-executes one stored case, raising Violation

Everything random goes through Hypothesis draws seeded from VERIF_SEED; no
wall clock or private RNG takes part in deciding a case.
"""

from __future__ import annotations

import collections
import hashlib
import importlib
import json
import os
import shutil
import sys
import time
import traceback

ROOT = os.path.dirname(os.path.dirname(os.path.abspath(__file__)))
NWORKERS = int(os.environ.get('VERIF_WORKERS', '16'))


class Violation(Exception):
  """The property does not hold for the current case."""

  def __init__(self, kind, detail, labels=None):
    super().__init__(f'{kind}: {detail}')
    self.kind = kind
    self.detail = detail
    self.labels = dict(labels or {})
    self.labels.setdefault('check', kind)


class HarnessError(Exception):
  """The machinery, not brax, is at fault: exit 2, never a VIOLATION."""


def jdump(x):
  return json.dumps(x, sort_keys=True, default=_default)


def _default(o):
  try:
    import numpy as np
    if isinstance(o, np.ndarray):
      return o.tolist()
    if isinstance(o, (np.floating,)):
      return float(o)
    if isinstance(o, (np.integer,)):
      return int(o)
    if isinstance(o, (np.bool_,)):
      return bool(o)
  except ImportError:
    pass
  if isinstance(o, (set, frozenset)):
    return sorted(o)
  if hasattr(o, 'tolist'):
    return o.tolist()
  raise TypeError(f'not JSON-able: {type(o)}')


def fingerprint(x, digits=6):
  """Hash of a JSON-able value with floats rounded (distinctness of cases)."""

  def rnd(v):
    if isinstance(v, float):
      return round(v, digits)
    if isinstance(v, dict):
      return {k: rnd(w) for k, w in v.items()}
    if isinstance(v, (list, tuple)):
      return [rnd(w) for w in v]
    if hasattr(v, 'tolist'):
      return rnd(v.tolist())
    return v

  return hashlib.sha1(jdump(rnd(x)).encode()).hexdigest()[:14]


def derive_seed(*parts):
  h = hashlib.sha256(jdump(list(parts)).encode()).digest()
  return int.from_bytes(h[:8], 'big') % (2**63)


# ---------------------------------------------------------------------------
# known findings


def load_known(prop):
  path = os.path.join(ROOT, 'known_findings.json')
  if not os.path.exists(path):
    return []
  with open(path) as f:
    data = json.load(f)
  return [e for e in data.get('findings', []) if e.get('property') == prop]


def matches(signature, labels):
  for k, v in signature.items():
    lv = labels.get(k)
    if isinstance(v, list):
      if lv not in v:
        return False
    elif lv != v:
      return False
  return True


# ---------------------------------------------------------------------------
# worker side


class Ctx:
  """Per-task collector handed to run_task."""

  def __init__(self, prop, task, tier, deadline):
    self.prop = prop
    self.task = task
    self.tier = tier
    self.deadline = deadline
    self.evaluations = 0
    self.programs = 0
    self.fps = {}  # fp -> nontrivial
    self.labels = collections.Counter()
    self.counters = collections.Counter()
    self.resid = {}
    self.samples = []
    self.violations = []
    self.known_hits = []
    self.notes = []
    self.known = [e for e in load_known(prop) if e.get('status') == 'known']
    self.enum_evals = 0
    self.shrink_default = None
    self.enum_distinct = 0
    self.enum_nontrivial = 0

  # -- recording
  def out_of_time(self):
    return time.time() > self.deadline

  def count(self, name, n=1):
    self.counters[name] += n

  def residual(self, name, value):
    value = float(value)
    if value != value:  # NaN
      value = float('inf')
    if value > self.resid.get(name, -1.0):
      self.resid[name] = value

  def record(self, fp=None, nontrivial=False, labels=(), sample=None, evals=1,
             fps=None):
    """One generated case. fps: iterable of (fp, nontrivial) when a case holds
    several evaluations (one model x K states)."""
    self.programs += 1
    if fps is None:
      fps = [(fp, nontrivial)]
      n = evals
    else:
      fps = list(fps)
      n = len(fps)
    self.evaluations += n
    any_nt = False
    for f, nt in fps:
      if f is None:
        continue
      self.fps[f] = bool(self.fps.get(f, False) or nt)
      any_nt = any_nt or nt
    for l in labels:
      self.labels[l] += 1
    if sample is not None:
      if len(self.samples) < 2:
        self.samples.append({'nontrivial': bool(any_nt), 'case': sample})
      elif any_nt and not all(s['nontrivial'] for s in self.samples):
        for i, s in enumerate(self.samples):
          if not s['nontrivial']:
            self.samples[i] = {'nontrivial': True, 'case': sample}
            break

  def enum(self, evaluations, distinct, nontrivial):
    """Counts for enumerated scopes where every case is distinct by construction."""
    self.evaluations += int(evaluations)
    self.enum_evals += int(evaluations)
    self.enum_distinct += int(distinct)
    self.enum_nontrivial += int(nontrivial)

  def is_known(self, v):
    for e in self.known:
      if matches(e.get('signature', {}), v.labels):
        return e
    return None

  def violation(self, case, v, check=None):
    """Registers a violation (unless it matches a known finding)."""
    e = self.is_known(v)
    if e is not None:
      self.counters['excluded_known'] += 1
      self.counters['excluded_known:' + e['id']] += 1
      return False
    self.violations.append({
        'property': self.prop, 'check': check or self.task.get('kind'),
        'kind': v.kind, 'detail': v.detail, 'labels': v.labels, 'case': case,
        'task': {k: w for k, w in self.task.items() if k != 'cases'},
    })
    return True

  # -- hypothesis driver
  def run_given(self, strategy, body, max_examples, seed, shrink_budget=None,
                check=None, skip_simplest=False):
    """Runs body(case) over generated cases.

    body returns a dict for ctx.record(**dict) (or None) and raises Violation.
    Shrinking is Hypothesis' own, bounded by a count of re-evaluations: beyond
    the budget unseen candidates are reported as passing, already seen failing
    ones are answered from a cache, so the final replay is consistent.
    """
    import hypothesis
    from hypothesis import HealthCheck, Phase, given, settings

    if shrink_budget is None:
      shrink_budget = self.shrink_default.get(self.tier, 40) if self.shrink_default else (40 if self.tier == 'quick' else 300)
    fail_cache = {}
    order = []
    state = {'after_fail': 0}
    if skip_simplest:
      # Hypothesis always starts with the all-minimal example; for one-example-per-configuration sweeps that
      # example is skipped (marker 0) so that the one evaluated case is a random one
      from hypothesis import strategies as _st
      strategy = _st.tuples(_st.integers(0, 1000), strategy)
      max_examples += 1

    def test(case):
      if skip_simplest:
        marker, case = case
        if marker == 0 and not fail_cache:
          self.counters['skipped_simplest'] += 1
          return
      key = jdump(case)
      if key in fail_cache:
        raise fail_cache[key]
      if fail_cache:
        state['after_fail'] += 1
        if state['after_fail'] > shrink_budget:
          # budget used up: answer "still fails" without evaluating, so that Hypothesis' shrinker runs out of
          # moves in seconds (answering "passes" makes it grind through every pass for minutes). The reported
          # case is the last one that was really evaluated (order[-1]), never one of these.
          raise fail_cache[order[-1]]
      elif self.out_of_time():
        self.counters['budget_skipped'] += 1
        return
      try:
        info = body(case)
      except Violation as v:
        if self.is_known(v) is not None:
          self.violation(case, v)
          return
        fail_cache[key] = v
        order.append(key)
        raise
      except HarnessError:
        raise
      except Exception as e:  # pylint: disable=broad-except
        v = classify_exception(e)
        if v is None:
          raise
        if self.is_known(v) is not None:
          self.violation(case, v)
          return
        fail_cache[key] = v
        order.append(key)
        raise v from e
      if not fail_cache and info is not None:
        self.record(**info)

    phases = [Phase.explicit, Phase.generate]
    if shrink_budget > 0:
      phases.append(Phase.shrink)
    test = given(strategy)(test)
    test = settings(
        max_examples=max_examples, database=None, deadline=None,
        report_multiple_bugs=False, derandomize=False, phases=phases,
        suppress_health_check=list(HealthCheck), print_blob=False,
    )(test)
    test = hypothesis.seed(seed)(test)
    try:
      test()
    except Violation:
      pass
    except hypothesis.errors.Flaky as e:
      if not order:
        raise HarnessError(f'flaky without failure: {e}') from e
    if order:
      # the last failing case Hypothesis settled on is its minimal example
      key = order[-1]
      v = fail_cache[key]
      self.violation(json.loads(key), v, check=check)
      self.counters['shrink_evals'] += state['after_fail']
    return bool(order)
    if self.out_of_time():
      self.counters['inconclusive_budget'] += 1

  def result(self):
    return {
        'evaluations': self.evaluations, 'programs': self.programs,
        'fps': self.fps, 'labels': dict(self.labels),
        'counters': dict(self.counters), 'resid': self.resid,
        'samples': self.samples, 'violations': self.violations,
        'known_hits': self.known_hits, 'notes': self.notes,
        'enum': [self.enum_evals, self.enum_distinct, self.enum_nontrivial],
    }


def brax_dir():
  import brax
  return os.path.dirname(os.path.abspath(brax.__file__))


def classify_exception(e):
  """An exception raised inside brax on an in-domain input is a violation; one
  whose traceback never enters brax is a harness error (returns None)."""
  tb = traceback.extract_tb(e.__traceback__)
  bdir = brax_dir()
  inner = None
  for fr in tb:
    fn = os.path.abspath(fr.filename)
    if fn.startswith(bdir + os.sep):
      inner = fr
  if inner is None:
    return None
  where = f'{os.path.relpath(inner.filename, bdir)}:{inner.name}'
  return Violation(
      'exception', f'{type(e).__name__} in brax/{where}: {str(e)[:300]}',
      labels={'check': 'exception', 'exc': type(e).__name__, 'where': where})


def run_dir():
  """Scratch cwd of this check invocation (MuJoCo appends MUJOCO_LOG.TXT to the cwd); one per parent process so
  that concurrent invocations do not remove each other's directories."""
  d = os.environ.get('VERIF_RUN_DIR')
  if not d:
    d = os.path.join(ROOT, '.run', f'p{os.getpid()}')
    os.environ['VERIF_RUN_DIR'] = d
  return d


def quiet_import_brax():
  """mujoco.mjx prints 'Failed to import warp' on import; keep stdout clean."""
  import contextlib
  import io
  with contextlib.redirect_stdout(io.StringIO()), contextlib.redirect_stderr(io.StringIO()):
    import brax  # pylint: disable=unused-import,import-outside-toplevel
    from brax.io import mjcf  # pylint: disable=unused-import,import-outside-toplevel


def _worker_init(x64_default):
  d = os.path.join(run_dir(), f'w{os.getpid()}')
  os.makedirs(d, exist_ok=True)
  os.chdir(d)
  quiet_import_brax()


def _run_task(prop, task, tier, deadline):
  t0 = time.time()
  mod = importlib.import_module(f'vf.checks.{prop.lower()}')
  ctx = Ctx(prop, task, tier, deadline)
  ctx.shrink_default = getattr(mod, 'SHRINK', None)
  try:
    if 'x64' in task or hasattr(mod, 'X64'):
      import jax
      jax.config.update('jax_enable_x64', bool(task.get('x64', getattr(mod, 'X64', True))))
    kind = task.get('kind')
    if kind in ('regress', 'known_witness'):
      with open(task['file']) as f:
        stored = json.load(f)
      try:
        try:
          mod.replay(stored['case'], stored.get('check'))
        except Violation:
          raise
        except HarnessError:
          raise
        except Exception as e:  # an exception raised inside brax on a stored in-domain case is a violation too
          v_ = classify_exception(e)
          if v_ is None:
            raise
          raise v_ from e
        ctx.record(fp='regress:' + os.path.basename(task['file']),
                   nontrivial=False, labels=[kind + ':pass'])
        if kind == 'known_witness':
          ctx.notes.append(f"known finding {task.get('id')} no longer reproduces on its witness")
      except Violation as v:
        if kind == 'known_witness':
          ctx.known_hits.append({'id': task.get('id'), 'what': task.get('what'), 'detail': v.detail})
          ctx.record(fp='known:' + os.path.basename(task['file']), labels=['known_witness:fails'])
        else:
          ctx.violations.append({
              'property': prop, 'check': 'regress', 'kind': v.kind,
              'detail': v.detail, 'labels': v.labels,
              'case': stored.get('case', stored), 'task': task,
              'replay_file': task['file']})
    else:
      mod.run_task(task, ctx)
    res = ctx.result()
    res['ok'] = True
  except HarnessError as e:
    res = ctx.result()
    res['ok'] = False
    res['error'] = f'HarnessError: {e}\n{traceback.format_exc()}'
  except Exception as e:  # pylint: disable=broad-except
    res = ctx.result()
    res['ok'] = False
    res['error'] = f'{type(e).__name__}: {e}\n{traceback.format_exc()}'
  res['task'] = {k: w for k, w in task.items() if k != 'cases'}
  res['wall_s'] = time.time() - t0
  return res


# ---------------------------------------------------------------------------
# parent side


BUDGET_S = {'quick': 420.0, 'thorough': 2700.0}


def _task_entry(prop, task, tier, deadline, outfile):
  """Runs one task in its own process; the result goes through a file so that an abrupt death (an abort inside XLA, the
  kernel's OOM killer) costs exactly this task."""
  import pickle
  _worker_init(True)
  res = _run_task(prop, task, tier, deadline)
  with open(outfile + '.tmp', 'wb') as f:
    pickle.dump(res, f)
  os.replace(outfile + '.tmp', outfile)


def _crashed(task, why):
  return {'ok': False, 'error': why, 'task': {k: w for k, w in task.items() if k != 'cases'}, 'evaluations': 0, 'programs': 0,
          'fps': {}, 'labels': {}, 'counters': {}, 'resid': {}, 'samples': [], 'enum': [0, 0, 0], 'violations': [],
          'known_hits': [], 'notes': [], 'wall_s': 0}


def run_tasks_isolated(prop, tasks, tier, deadline, workers):
  """One spawned process per task, at most `workers` at a time, in task order. A task whose process dies without a
  result is retried once (alone is not required: it only ever loses itself); a second death is a harness error."""
  import multiprocessing as mp
  import pickle
  ctx = mp.get_context('spawn')
  outdir = os.path.join(run_dir(), 'results')
  os.makedirs(outdir, exist_ok=True)
  results = [None] * len(tasks)
  queue = [(i, 0) for i in range(len(tasks))]
  running = {}
  while queue or running:
    while queue and len(running) < workers:
      i, attempt = queue.pop(0)
      out = os.path.join(outdir, f't{i}_{attempt}.pkl')
      p_ = ctx.Process(target=_task_entry, args=(prop, tasks[i], tier, deadline, out))
      p_.start()
      running[i] = (p_, out, attempt)
    time.sleep(0.05)
    for i in list(running):
      p_, out, attempt = running[i]
      if p_.is_alive():
        continue
      p_.join()
      del running[i]
      if os.path.exists(out):
        with open(out, 'rb') as f:
          results[i] = pickle.load(f)
        os.remove(out)
      elif attempt == 0:
        queue.append((i, 1))
      else:
        results[i] = _crashed(tasks[i], f'worker process died twice without a result (exit code {p_.exitcode})')
  return results


def run_check(prop, tier, seed, workers=None, only_kinds=None):
  t0 = time.time()
  os.makedirs(run_dir(), exist_ok=True)
  mod = importlib.import_module(f'vf.checks.{prop.lower()}')
  budget = float(getattr(mod, 'BUDGET_S', BUDGET_S)[tier])
  deadline = t0 + budget
  tasks = []
  rdir = os.path.join(ROOT, 'regress', prop)
  if os.path.isdir(rdir):
    for fn in sorted(os.listdir(rdir)):
      if fn.endswith('.json'):
        tasks.append({'kind': 'regress', 'file': os.path.join(rdir, fn)})
  for e in load_known(prop):
    if e.get('status') == 'known' and e.get('witness'):
      tasks.append({'kind': 'known_witness', 'id': e['id'], 'what': e.get('what', ''),
                    'file': os.path.join(ROOT, e['witness'])})
  gen_tasks = mod.tasks(tier, seed)
  for i, t in enumerate(gen_tasks):
    t.setdefault('seed', derive_seed(seed, prop, i, t.get('kind')))
  tasks += gen_tasks
  if only_kinds:
    tasks = [t for t in tasks if t.get('kind') in only_kinds]
  workers = workers or min(NWORKERS, max(1, len(tasks)))

  results = []
  if workers == 1 or os.environ.get('VERIF_INPROC') == '1':
    _worker_init(True)
    for t in tasks:
      results.append(_run_task(prop, t, tier, deadline))
  else:
    results = run_tasks_isolated(prop, tasks, tier, deadline, workers)
  return finish(prop, mod, tier, seed, results, time.time() - t0)


def finish(prop, mod, tier, seed, results, wall):
  evaluations = sum(r['evaluations'] for r in results)
  programs = sum(r['programs'] for r in results)
  fps = {}
  labels = collections.Counter()
  counters = collections.Counter()
  resid = {}
  samples, violations, known_hits, notes, errors = [], [], [], [], []
  per_kind = collections.defaultdict(lambda: {'tasks': 0, 'evaluations': 0, 'wall_s': 0.0})
  for r in results:
    for f, nt in r['fps'].items():
      fps[f] = fps.get(f, False) or nt
    labels.update(r['labels'])
    counters.update(r['counters'])
    for k, v in r['resid'].items():
      resid[k] = max(resid.get(k, -1.0), v)
    samples += r['samples']
    violations += r['violations']
    known_hits += r['known_hits']
    notes += r['notes']
    if not r.get('ok', False):
      errors.append({'task': r.get('task'), 'error': r.get('error')})
    k = (r.get('task') or {}).get('kind', '?')
    per_kind[k]['tasks'] += 1
    per_kind[k]['evaluations'] += r['evaluations']
    per_kind[k]['wall_s'] = round(per_kind[k]['wall_s'] + r.get('wall_s', 0), 1)
  samples.sort(key=lambda s: not s['nontrivial'])
  samples = [s['case'] for s in samples[:5]]
  distinct_nt = sum(1 for v in fps.values() if v)
  enum_evals = sum(r.get('enum', [0, 0, 0])[0] for r in results)
  enum_distinct = sum(r.get('enum', [0, 0, 0])[1] for r in results)
  distinct_nt += sum(r.get('enum', [0, 0, 0])[2] for r in results)

  # replay files
  lines = []
  seen = set()
  for v in violations:
    if v.get('replay_file'):
      path = v['replay_file']
    else:
      sha = hashlib.sha1(jdump([v['check'], v['case']]).encode()).hexdigest()[:16]
      d = os.path.join(ROOT, 'replay', prop)
      os.makedirs(d, exist_ok=True)
      path = os.path.join(d, sha + '.json')
      with open(path, 'w') as f:
        json.dump({'property': prop, 'check': v['check'], 'kind': v['kind'],
                   'detail': v['detail'], 'labels': v['labels'], 'case': v['case'],
                   'seed': seed, 'tier': tier}, f, indent=1, default=_default)
    if path in seen:
      continue
    seen.add(path)
    lines.append((path, v))

  floors = {}
  if hasattr(mod, 'floors'):
    try:
      floors = mod.floors(dict(labels), programs, tier)
    except Exception as e:  # pylint: disable=broad-except
      floors = {'error': str(e)}
  coverage = {
      'evaluations': int(evaluations),
      'distinct_nontrivial': int(distinct_nt),
      'distinct_cases': len(fps) + enum_distinct,
      'enumerated_cases': enum_evals,
      'programs': int(programs),
      'rule': mod.RULE,
      'samples': samples,
      'exhaustive': bool(getattr(mod, 'EXHAUSTIVE', False)),
      'class_histogram': dict(sorted(labels.items())),
      'counters': dict(sorted(counters.items())),
      'worst_residuals': {k: resid[k] for k in sorted(resid)},
      'tolerances': getattr(mod, 'TOLERANCES', {}),
      'floors': floors,
      'per_task_kind': dict(per_kind),
      'known_findings_reproduced': [h['id'] for h in known_hits],
      'inconclusive_budget': bool(counters.get('inconclusive_budget', 0) or counters.get('budget_skipped', 0)),
      'engine': getattr(mod, 'ENGINE', 'hypothesis'),
      'notes': notes,
  }
  if hasattr(mod, 'extra_coverage'):
    coverage.update(mod.extra_coverage(tier))
  ev = {
      'property_id': prop, 'tier': tier, 'seed': int(seed), 'level': 'exploration',
      'coverage': coverage, 'assumptions': list(getattr(mod, 'ASSUMPTIONS', [])),
      'wall_s': round(wall, 2), 'violations': len(lines),
  }
  if errors:
    ev['coverage']['harness_errors'] = errors[:5]
  evdir = os.environ.get('VERIF_EVIDENCE_DIR') or os.path.join(ROOT, 'evidence')
  os.makedirs(evdir, exist_ok=True)
  with open(os.path.join(evdir, f'{prop}.json'), 'w') as f:
    json.dump(ev, f, indent=1, default=_default)
    f.write('\n')

  for h in known_hits:
    print(f"KNOWN-FINDING: property={prop} {h['id']}: {h['what']}")
  for n in notes:
    print(f'NOTE: {n}')
  print(f'[{prop}] tier={tier} seed={seed} evaluations={evaluations} programs={programs} '
        f'distinct_nontrivial={distinct_nt} excluded_known={counters.get("excluded_known", 0)} '
        f'wall={wall:.1f}s')
  if resid:
    print(f'[{prop}] worst residuals: ' + ', '.join(f'{k}={v:.2e}' for k, v in sorted(resid.items())))
  for path, v in lines:
    print(f'  violation kind={v["kind"]} check={v["check"]}: {v["detail"][:400]}')
    print(f'VIOLATION property={prop} replay={path}')
  os.chdir(ROOT)
  shutil.rmtree(run_dir(), ignore_errors=True)
  if lines:
    return 1
  if errors:
    for e in errors[:3]:
      print(f'HARNESS ERROR in task {e["task"]}:\n{e["error"]}', file=sys.stderr)
    return 2
  return 0


def run_replay(prop, path):
  mod = importlib.import_module(f'vf.checks.{prop.lower()}')
  path = os.path.abspath(path)
  _worker_init(True)
  if hasattr(mod, 'X64'):
    import jax
    jax.config.update('jax_enable_x64', bool(mod.X64))
  with open(path) as f:
    stored = json.load(f)
  try:
    mod.replay(stored['case'], stored.get('check'))
  except Violation as v:
    known = [e for e in load_known(prop) if e.get('status') == 'known']
    for e in known:
      if matches(e.get('signature', {}), v.labels):
        print(f"KNOWN-FINDING: property={prop} {e['id']}: {e.get('what', '')}")
        return 0
    print(f'  violation kind={v.kind}: {v.detail[:600]}')
    print(f'VIOLATION property={prop} replay={os.path.abspath(path)}')
    return 1
  except Exception as e:  # pylint: disable=broad-except
    v = classify_exception(e)
    if v is None:
      traceback.print_exc()
      return 2
    print(f'  violation kind={v.kind}: {v.detail[:600]}')
    print(f'VIOLATION property={prop} replay={os.path.abspath(path)}')
    return 1
  print(f'[{prop}] replay {path}: property holds on this case')
  return 0
