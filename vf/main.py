"""Entry point: ./check CXX [--tier quick|thorough] [--replay FILE]."""
import argparse
import os
import sys


def main():
  ap = argparse.ArgumentParser()
  ap.add_argument('prop')
  ap.add_argument('--tier', default=os.environ.get('VERIF_TIER', 'quick'),
                  choices=['quick', 'thorough'])
  ap.add_argument('--replay')
  ap.add_argument('--workers', type=int)
  ap.add_argument('--only', help='comma-separated task kinds (debugging)')
  a = ap.parse_args()
  os.environ.setdefault('JAX_PLATFORMS', 'cpu')
  os.environ.setdefault('OMP_NUM_THREADS', '1')
  os.environ.setdefault('OPENBLAS_NUM_THREADS', '1')
  flags = os.environ.get('XLA_FLAGS', '')
  if 'xla_cpu_multi_thread_eigen' not in flags:
    flags += ' --xla_cpu_multi_thread_eigen=false intra_op_parallelism_threads=1'
  os.environ['XLA_FLAGS'] = flags.strip()
  from vf import harness
  try:
    seed = int(os.environ.get('VERIF_SEED', '1'))
  except ValueError:
    seed = 1
  prop = a.prop.upper()
  try:
    if a.replay:
      rc = harness.run_replay(prop, a.replay)
    else:
      rc = harness.run_check(prop, a.tier, seed, a.workers,
                             a.only.split(',') if a.only else None)
  except Exception:  # pylint: disable=broad-except
    import traceback
    traceback.print_exc()
    rc = 2
  sys.stdout.flush()
  sys.exit(rc)


if __name__ == '__main__':
  main()
