import json, sys, glob, jsonschema
m=json.load(open('/verif/MANIFEST.json')); jsonschema.validate(m, json.load(open('/root/.vp/MANIFEST.schema.json')))
s=json.load(open('/root/.vp/EVIDENCE.schema.json'))
for f in sorted(glob.glob('/verif/evidence/*.json')):
    e=json.load(open(f)); jsonschema.validate(e, s); c=e['coverage']
    print(f.split('/')[-1], e['tier'], 'evals',c['evaluations'],'nt',c['distinct_nontrivial'],'wall',e['wall_s'],'viol',e.get('violations'))
print('manifest ok; claimed', len(m['checks']), 'na', len(m.get('not_applicable',[])))
