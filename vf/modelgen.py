"""Shared model generator: Hypothesis strategies -> ModelSpec (plain JSON) -> MJCF string.

A ModelSpec is the unit of shrinking and replay.  Bodies are stored in depth-first document order
(= MuJoCo body order = brax link order).  Everything numeric in the spec is final (unit vectors and
quaternions already normalised) so the emitted document is a pure function of the spec.
"""

import math

import numpy as np
from hypothesis import strategies as st

S75 = math.sqrt(0.75)
SPECIAL_AXES = [
    [1, 0, 0], [0, 1, 0], [0, 0, 1], [-1, 0, 0], [0, -1, 0], [0, 0, -1],
    [S75, 0.5, 0], [0, 0.5, S75], [S75, -0.5, 0], [0, -0.5, -S75],  # a_y = +-0.5: math.orthogonals branch point
    [math.sqrt(0.5), math.sqrt(0.5), 0], [math.sqrt(0.5), 0, math.sqrt(0.5)],
]
H = math.sqrt(0.5)
SPECIAL_QUATS = [
    [1, 0, 0, 0], [H, H, 0, 0], [H, 0, H, 0], [H, 0, 0, H], [0, 1, 0, 0], [0, 0, 1, 0], [0, 0, 0, 1],
    [0.5, 0.5, 0.5, 0.5], [H, -H, 0, 0],
]


def fl(lo, hi):
  # no subnormals: MuJoCo's XML reader refuses them ("number is too large")
  return st.floats(lo, hi, allow_nan=False, allow_infinity=False, width=64, allow_subnormal=False)


def num(lo, hi, specials=(0.0,)):
  sp = [s for s in specials if lo <= s <= hi]
  if not sp:
    return fl(lo, hi)
  return st.one_of(fl(lo, hi), fl(lo, hi), st.sampled_from(sp))


def _norm(v, fallback):
  v = np.asarray(v, float)
  n = float(np.linalg.norm(v))
  if not n > 1e-3:
    return [float(x) for x in fallback]
  v = v / n
  v = np.where(np.abs(v) < 1e-200, 0.0, v)
  return [float(x) for x in v]


@st.composite
def unit_vec(draw):
  if draw(st.integers(0, 3)) == 0:
    return [float(x) for x in draw(st.sampled_from(SPECIAL_AXES))]
  return _norm(draw(st.lists(fl(-1, 1), min_size=3, max_size=3)), [0, 0, 1])


@st.composite
def unit_quat(draw, identity_p=0.15):
  r = draw(st.integers(0, 99))
  if r < identity_p * 100:
    return [1.0, 0.0, 0.0, 0.0]
  if r < identity_p * 100 + 15:
    return [float(x) for x in draw(st.sampled_from(SPECIAL_QUATS))]
  q = _norm(draw(st.lists(fl(-1, 1), min_size=4, max_size=4)), [1, 0, 0, 0])
  if max(abs(x) for x in q[1:]) < 1e-4:  # nearly-identity rotations: same "sameframe" tolerance of the reference
    return [1.0, 0.0, 0.0, 0.0]
  return q


def _snap(x, eps=1e-4):
  return 0.0 if abs(x) < eps else float(x)


def vec3(lo, hi):
  # offsets in (0, 1e-4) are snapped to 0: MuJoCo's compiler treats frames closer than ~1e-6 as identical
  # (its "sameframe" shortcut), so such offsets would measure the reference's approximation, not brax
  return st.lists(num(lo, hi), min_size=3, max_size=3).map(lambda v: [_snap(x) for x in v])


def quat_to_mat(q):
  w, x, y, z = q
  return np.array([
      [1 - 2 * (y * y + z * z), 2 * (x * y - w * z), 2 * (x * z + w * y)],
      [2 * (x * y + w * z), 1 - 2 * (x * x + z * z), 2 * (y * z - w * x)],
      [2 * (x * z - w * y), 2 * (y * z + w * x), 1 - 2 * (x * x + y * y)]])


def quat_mul(u, v):
  return np.array([
      u[0] * v[0] - u[1] * v[1] - u[2] * v[2] - u[3] * v[3],
      u[0] * v[1] + u[1] * v[0] + u[2] * v[3] - u[3] * v[2],
      u[0] * v[2] - u[1] * v[3] + u[2] * v[0] + u[3] * v[1],
      u[0] * v[3] + u[1] * v[2] - u[2] * v[1] + u[3] * v[0]])


DEFAULT_PROFILE = dict(
    max_bodies=6, min_bodies=1,
    root='any',            # 'any' | 'free' | 'fixed'
    max_stack=3,
    axes='any',            # 'any' | 'orthogonal'
    stacks='any',          # 'any' | 'supported' (one kind per stack, or slides followed by one hinge)
    anchors=True, passive=True, springs=True,
    limits='some',         # 'none' | 'some' | 'wide' | 'all'
    actuators='any',       # 'none' | 'any' | 'motor' | 'bounded'
    collide=False, plane=False,
    geoms=('sphere', 'capsule', 'box'),
    gravity='any',         # 'any' | 'zero' | 'down'
    timestep=0.002,
    body_offsets=True,
)


def profile(**kw):
  p = dict(DEFAULT_PROFILE)
  p.update(kw)
  return p


@st.composite
def joint_stack(draw, p, cls):
  """Returns (anchor, [joint dicts]). cls forces interesting classes by construction."""
  k = draw(st.integers(1, p['max_stack']))
  if cls == 'stack':
    k = draw(st.integers(2, max(2, p['max_stack']))) if p['max_stack'] >= 2 else 1
  if cls == 'single':
    k = 1
  anchor = [0.0, 0.0, 0.0]
  if p['anchors'] and (cls == 'anchor' or draw(st.integers(0, 3)) == 0):
    anchor = draw(vec3(-0.3, 0.3))
    if cls == 'anchor' and not any(anchor):
      anchor = [0.1, -0.2, 0.05]
  if p['axes'] == 'orthogonal':
    r = quat_to_mat(draw(unit_quat(identity_p=0.3)))
    cols = [r[:, i] for i in draw(st.permutations([0, 1, 2]))]
    if draw(st.booleans()):
      cols[draw(st.integers(0, 2))] *= -1.0  # left-handed frames too
    axes = [[float(x) for x in c] for c in cols[:k]]
  else:
    axes = [draw(unit_vec()) for _ in range(k)]
  ortho = None
  if p['stacks'] == 'supported':
    pat = draw(st.sampled_from(['hinges', 'slides', 'slides_then_hinge']))
    if pat == 'hinges' or k == 1 and pat == 'slides_then_hinge' and draw(st.booleans()):
      types = ['hinge'] * k
    elif pat == 'slides':
      types = ['slide'] * k
    else:
      types = ['slide'] * (k - 1) + ['hinge']
  else:
    types = [draw(st.sampled_from(['hinge', 'hinge', 'slide'])) for _ in range(k)]
    if cls == 'slide' and 'slide' not in types:
      types[draw(st.integers(0, k - 1))] = 'slide'
  # joints of one kind in a stack need independent axes (parallel ones make the mass matrix singular for every
  # engine); a degenerate draw is replaced by an orthonormal frame instead of being rejected
  for kind in ('hinge', 'slide'):
    idx = [i for i, t in enumerate(types) if t == kind]
    if len(idx) >= 2:
      sv = np.linalg.svd(np.array([axes[i] for i in idx]), compute_uv=False)
      if sv.min() < 0.35:
        if ortho is None:
          ortho = quat_to_mat(draw(unit_quat(identity_p=0.0)))
        for n_, i in enumerate(idx):
          axes[i] = [float(x) for x in ortho[:, n_]]
  joints = []
  for typ, ax in zip(types, axes):
    j = {'type': typ, 'axis': ax}
    if p['passive']:
      if draw(st.integers(0, 2)) == 0:
        j['damping'] = draw(num(0.0, 2.0))
      if draw(st.integers(0, 3)) == 0:
        j['armature'] = draw(num(0.0, 0.5))
    if p.get('armature_only') and draw(st.integers(0, 2)) == 0:
      j['armature'] = draw(num(0.0, 0.5))   # reflected rotor inertia is conservative: allowed without the other passive terms
    if p['springs'] and draw(st.integers(0, 3)) == 0:
      j['stiffness'] = draw(num(0.0, 20.0))
    lim = p['limits']
    if lim == 'all' or (lim in ('some', 'wide') and draw(st.integers(0, 2)) == 0):
      if lim == 'wide':
        j['range'] = [draw(fl(-3.2, -2.6)), draw(fl(2.6, 3.2))]
      elif draw(st.integers(0, 3)) == 0:
        # a range that excludes 0 (a lift, a pre-bent knee)
        lo = draw(fl(0.1, 0.6))
        hi = lo + draw(fl(0.3, 1.2))
        j['range'] = [lo, hi] if draw(st.booleans()) else [-hi, -lo]
      else:
        lo = draw(fl(-2.5, -0.3))
        j['range'] = [lo, draw(fl(0.3, 2.5))]
    joints.append(j)
  return anchor, joints


@st.composite
def geom(draw, p):
  typ = draw(st.sampled_from(list(p['geoms'])))
  n = {'sphere': 1, 'capsule': 2, 'box': 3}[typ]
  g = {'type': typ, 'size': draw(st.lists(fl(0.05, 0.2), min_size=n, max_size=n)),
       'pos': draw(vec3(-0.3, 0.3)), 'quat': draw(unit_quat()),
       'density': draw(fl(200.0, 3000.0)), 'collide': bool(p['collide'])}
  return g


CLASSES = ['free_root', 'fixed_root', 'slide_on_rotated', 'stack', 'anchor', 'actuated', 'plain', 'fixed_then_free']
# 'single' (every non-free body has exactly one joint) is accepted by model_spec but not part of the default rotation


def enumerate_forests(max_n, min_n=1):
  """All ordered forests with min_n..max_n nodes as parent arrays in depth-first preorder (Catalan many per n)."""
  out = []

  def rec(parents, path):
    # path: ancestors of the last node, root first, including the last node
    if len(parents) >= min_n:
      out.append(list(parents))
    if len(parents) == max_n:
      return
    i = len(parents)
    rec(parents + [-1], [i])
    for d in range(len(path)):
      rec(parents + [path[d]], path[:d + 1] + [i])

  rec([-1], [0])
  return out


@st.composite
def model_spec(draw, p=None, cls=None, shape=None):
  """cls: the class the model is built to belong to (first draw of a case; floors by construction).
  shape: optional parent array (depth-first order) or a callable returning one: forces the topology."""
  p = p or DEFAULT_PROFILE
  if cls is None:
    cls = draw(st.sampled_from(CLASSES))
  if callable(shape):
    shape = shape()
  if shape is not None:
    parents = list(shape)
    nb = len(parents)
  else:
    nb = draw(st.integers(p['min_bodies'], p['max_bodies']))
    # random recursive forest, then re-ordered depth first
    parents = [-1]
    for i in range(1, nb):
      if p['root'] == 'single' or draw(st.integers(0, 4)) != 0:
        parents.append(draw(st.integers(0, i - 1)))
      else:
        parents.append(-1)
  if cls == 'fixed_then_free' and shape is None:
    # an actuated world-attached tree followed by a free body: q and qd addresses diverge after the free joint
    if nb < 2:
      nb, parents = 2, [-1, -1]
    parents[-1] = -1
  order, remap = [], {}
  children = {i: [] for i in range(-1, nb)}
  for i, pa in enumerate(parents):
    children[pa].append(i)
  def dfs(i):
    remap[i] = len(order)
    order.append(i)
    for c in children[i]:
      dfs(c)
  for r in children[-1]:
    dfs(r)
  bodies = []
  special_body = draw(st.integers(0, nb - 1))
  for new_i, old_i in enumerate(order):
    pa = parents[old_i]
    is_root = pa == -1
    if is_root:
      if p['root'] == 'free':
        free = True
      elif p['root'] == 'fixed':
        free = False
      elif cls == 'free_root' and new_i == 0:
        free = True
      elif cls == 'fixed_root' and new_i == 0:
        free = False
      elif cls == 'fixed_then_free':
        free = new_i != 0
      else:
        free = draw(st.booleans())
    else:
      free = False
    bcls = cls if (new_i == special_body or cls == 'single') else None
    if cls in ('stack', 'anchor') and not free:
      bcls = bcls or (cls if draw(st.booleans()) else None)
    b = {'parent': remap[pa] if pa != -1 else -1, 'free': free}
    if p['body_offsets']:
      b['pos'] = draw(vec3(-0.5, 0.5))
      b['quat'] = draw(unit_quat())
      if bcls == 'slide_on_rotated' and b['quat'] == [1.0, 0.0, 0.0, 0.0]:
        b['quat'] = [0.8, 0.2, 0.4, 0.4]
    else:
      b['pos'], b['quat'] = [0.0, 0.0, 0.0], [1.0, 0.0, 0.0, 0.0]
    if free:
      b['anchor'], b['joints'] = [0.0, 0.0, 0.0], []
    else:
      b['anchor'], b['joints'] = draw(joint_stack(p, 'slide' if bcls == 'slide_on_rotated' else bcls))
    b['geoms'] = [draw(geom(p)) for _ in range(draw(st.integers(1, 2)))]
    bodies.append(b)
  # actuators
  acts = []
  if p['actuators'] != 'none':
    slots = [(bi, ji) for bi, b in enumerate(bodies) for ji in range(len(b['joints']))]
    want = cls in ('actuated', 'fixed_then_free') or draw(st.integers(0, 2)) == 0
    if slots and want:
      n_act = draw(st.integers(1, 10 if cls == 'actuated' else 4))
      for _ in range(n_act):
        bi, ji = draw(st.sampled_from(slots))
        kind = 'motor' if p['actuators'] == 'motor' else draw(st.sampled_from(['motor', 'position', 'velocity']))
        bounded = p['actuators'] == 'bounded'
        a = {'kind': kind, 'body': bi, 'joint': ji,
             'gear': draw(fl(0.5, 3.0)) if bounded else draw(st.one_of(fl(0.5, 30.0), fl(-5.0, -0.5)))}
        if kind == 'position':
          a['kp'] = draw(fl(1.0, 10.0 if bounded else 50.0))
          if draw(st.integers(0, 3)) == 0 and not bounded:
            a['kv'] = draw(fl(0.1, 3.0))
        if kind == 'velocity':
          a['kv'] = draw(fl(0.1, 1.0 if bounded else 5.0))
        if draw(st.booleans()):
          a['ctrlrange'] = [draw(fl(-2.0, -0.2)), draw(fl(0.2, 2.0))]
        if draw(st.integers(0, 2)) == 0:
          a['forcerange'] = [draw(fl(-5.0, -0.5)), draw(fl(0.5, 5.0))]
        if p.get('limit_flags'):
          # a declared range is in force when the flag is "true" or absent (autolimits), and ignored when it is "false"
          for rng, flag in (('ctrlrange', 'ctrllimited'), ('forcerange', 'forcelimited')):
            if a.get(rng) is not None:
              a[flag] = draw(st.sampled_from(['true', 'false', 'auto', 'true']))
        acts.append(a)
  if p['gravity'] == 'zero':
    grav = [0.0, 0.0, 0.0]
  elif p['gravity'] == 'down':
    grav = [0.0, 0.0, -9.81]
  else:
    grav = draw(st.sampled_from([[0.0, 0.0, -9.81], [0.0, 0.0, -9.81], [0.0, 0.0, 0.0], None]))
    if grav is None:
      grav = draw(vec3(-10.0, 10.0))
  return {'timestep': p['timestep'], 'gravity': grav, 'plane': bool(p['plane']), 'bodies': bodies, 'acts': acts,
          'cls': cls}


# ---------------------------------------------------------------------------
# emitter


def fmt(a):
  return ' '.join(repr(0.0 if abs(float(x)) < 1e-200 else float(x)) for x in a)


def joint_name(bi, ji):
  return f'j{bi}_{ji}'


def to_xml(spec, custom=None, strip_limits=False, no_collide=False, extra_option='', extra_world='',
           body_order=None, name_prefix=''):
  """Emits MJCF.  body_order: optional {parent: [children in the order to list]} for sibling permutations."""
  bodies = spec['bodies']
  children = {i: [] for i in range(-1, len(bodies))}
  for i, b in enumerate(bodies):
    children[b['parent']].append(i)
  if body_order is not None:
    children = {int(k): list(v) for k, v in body_order.items()}
  px = name_prefix

  def body(i, ind):
    b = bodies[i]
    s = ' ' * ind
    out = [f'{s}<body name="{px}b{i}" pos="{fmt(b["pos"])}" quat="{fmt(b["quat"])}">']
    if b['free']:
      out.append(f'{s}  <freejoint name="{px}f{i}"/>')
    for ji, j in enumerate(b['joints']):
      a = f'name="{px}{joint_name(i, ji)}" type="{j["type"]}" axis="{fmt(j["axis"])}" pos="{fmt(b["anchor"])}"'
      for k in ('damping', 'armature', 'stiffness'):
        if k in j:
          a += f' {k}="{float(j[k])!r}"'
      if j.get('range') is not None and not strip_limits:
        a += f' limited="true" range="{fmt(j["range"])}"'
      out.append(f'{s}  <joint {a}/>')
    for gi, g in enumerate(b['geoms']):
      c = '' if (g.get('collide') and not no_collide) else ' contype="0" conaffinity="0"'
      if g.get('margin'):
        c += f' margin="{float(g["margin"])!r}"'
      loc = f'fromto="{fmt(g["fromto"])}"' if 'fromto' in g else f'pos="{fmt(g["pos"])}" quat="{fmt(g["quat"])}"'
      size = g['size'][:1] if 'fromto' in g else g['size']
      out.append(f'{s}  <geom name="{px}g{i}_{gi}" type="{g["type"]}" size="{fmt(size)}" {loc} '
                 f'density="{float(g["density"])!r}"{c}/>')
    for c in children.get(i, []):
      out += body(c, ind + 2)
    out.append(f'{s}</body>')
    return out

  lines = ['<mujoco>', '  <compiler angle="radian" autolimits="true"/>',
           f'  <option timestep="{float(spec["timestep"])!r}" gravity="{fmt(spec["gravity"])}"{extra_option}/>']
  cust = {'matrix_inv_iterations': 0}
  cust.update(custom or {})
  lines.append('  <custom>')
  for k, v in cust.items():
    data = fmt(v) if isinstance(v, (list, tuple)) else repr(v)
    lines.append(f'    <numeric name="{k}" data="{data}"/>')
  lines.append('  </custom>')
  lines.append('  <worldbody>')
  if spec.get('plane'):
    c = '' if not no_collide else ' contype="0" conaffinity="0"'
    lines.append(f'    <geom name="{px}floor" type="plane" size="10 10 1"{c}/>')
  if extra_world:
    lines.append(extra_world)
  for r in children[-1]:
    lines += body(r, 4)
  lines.append('  </worldbody>')
  if spec['acts']:
    lines.append('  <actuator>')
    for k, a in enumerate(spec['acts']):
      at = f'name="{px}a{k}" joint="{px}{joint_name(a["body"], a["joint"])}" gear="{float(a["gear"])!r}"'
      if 'kp' in a:
        at += f' kp="{float(a["kp"])!r}"'
      if 'kv' in a:
        at += f' kv="{float(a["kv"])!r}"'
      for rng, flag in (('ctrlrange', 'ctrllimited'), ('forcerange', 'forcelimited')):
        if a.get(rng) is not None:
          fl_ = a.get(flag, 'true')
          at += ('' if fl_ == 'auto' else f' {flag}="{fl_}"') + f' {rng}="{fmt(a[rng])}"'
      lines.append(f'    <{a["kind"]} {at}/>')
    lines.append('  </actuator>')
  lines.append('</mujoco>')
  return '\n'.join(lines)


# ---------------------------------------------------------------------------
# structure expected from the spec alone


def structure(spec):
  bodies = spec['bodies']
  q_adr, qd_adr, link_types = [], [], ''
  nq = nv = 0
  for b in bodies:
    q_adr.append(nq)
    qd_adr.append(nv)
    if b['free']:
      nq, nv = nq + 7, nv + 6
      link_types += 'f'
    else:
      k = len(b['joints'])
      nq, nv = nq + k, nv + k
      link_types += str(k)
  jq = {}
  for bi, b in enumerate(bodies):
    for ji in range(len(b['joints'])):
      jq[(bi, ji)] = (q_adr[bi] + ji, qd_adr[bi] + ji)
  act_q = [jq[(a['body'], a['joint'])][0] for a in spec['acts']]
  act_qd = [jq[(a['body'], a['joint'])][1] for a in spec['acts']]
  return {'nq': nq, 'nv': nv, 'nu': len(spec['acts']), 'link_types': link_types,
          'parents': [b['parent'] for b in bodies], 'q_adr': q_adr, 'qd_adr': qd_adr,
          'act_q': act_q, 'act_qd': act_qd, 'joint_slots': jq}


def topology_signature(spec):
  st_ = structure(spec)
  kinds = ['f' if b['free'] else ''.join(j['type'][0] for j in b['joints']) for b in spec['bodies']]
  return f"{st_['parents']}|{kinds}|{[a['kind'][0] + str(a['body']) + str(a['joint']) for a in spec['acts']]}"


def body_world_rot(spec, bi):
  """Accumulated body frame rotation at q = 0."""
  q = np.array([1.0, 0, 0, 0])
  chain = []
  i = bi
  while i != -1:
    chain.append(i)
    i = spec['bodies'][i]['parent']
  for i in reversed(chain):
    q = quat_mul(q, np.array(spec['bodies'][i]['quat']))
  return q


def classes(spec):
  """Measured class labels of a model (for the evidence histogram / floors)."""
  out = set()
  bodies = spec['bodies']
  if any(b['free'] for b in bodies):
    out.add('free_root')
  if any((not b['free']) and b['parent'] == -1 for b in bodies):
    out.add('fixed_root')
  for bi, b in enumerate(bodies):
    if len(b['joints']) >= 2:
      out.add('stack>=2')
    if len(b['joints']) >= 3:
      out.add('stack3')
    if any(b['anchor']):
      out.add('anchor')
    if any(j['type'] == 'slide' for j in b['joints']):
      out.add('slide')
      r = body_world_rot(spec, bi)
      if abs(abs(r[0]) - 1.0) > 1e-9:
        out.add('slide_on_rotated')
    if any(j.get('range') is not None for j in b['joints']):
      out.add('limited')
  if spec['acts']:
    out.add('actuated')
    seen = set()
    for a in spec['acts']:
      k = (a['body'], a['joint'])
      if k in seen:
        out.add('two_actuators_one_joint')
      seen.add(k)
      if bodies[a['body']]['joints'][a['joint']]['type'] == 'slide':
        out.add('actuator_on_slide')
      if a.get('ctrlrange') is not None or a.get('forcerange') is not None or a['kind'] != 'motor':
        out.add('actuator_range_or_bias')
  out.add(f'links{len(bodies)}')
  return sorted(out)


def simple_links(spec):
  """Links whose world velocity is inside C01's claim: the link and all its ancestors are free, or attached by a
  single hinge/slide anchored at the link origin."""
  ok = []
  for b in spec['bodies']:
    good = b['free'] or (len(b['joints']) == 1 and not any(b['anchor']))
    if b['parent'] != -1:
      good = good and ok[b['parent']]
    ok.append(bool(good))
  return ok


def stack_supported(b):
  """Stacks the maximal-coordinate pipelines implement: orthogonal axes of one joint kind, or slides followed by
  one hinge."""
  js = b['joints']
  if b['free'] or len(js) <= 1:
    return True
  ax = np.array([j['axis'] for j in js])
  g = ax @ ax.T
  if np.max(np.abs(g - np.eye(len(js)))) > 1e-9:
    return False
  types = [j['type'] for j in js]
  if len(set(types)) == 1:
    return True
  return types[-1] == 'hinge' and all(t == 'slide' for t in types[:-1])


# ---------------------------------------------------------------------------
# states


@st.composite
def states(draw, spec, k, q_range=(-2.0, 2.0), qd_range=(-1.0, 1.0), ctrl_range=(-2.0, 2.0), root_pos=(-1.0, 1.0),
           inside_limits=False, zero_qd=False):
  """K states for a spec: {'q': [[...]], 'qd': [[...]], 'ctrl': [[...]]} with unit root quaternions."""
  s = structure(spec)
  qs, qds, ctrls = [], [], []
  for _ in range(k):
    q = []
    for b in spec['bodies']:
      if b['free']:
        q += draw(st.lists(num(*root_pos), min_size=3, max_size=3))
        q += draw(unit_quat(identity_p=0.1))
      else:
        for j in b['joints']:
          lo, hi = q_range
          if inside_limits and j.get('range') is not None:
            span = j['range'][1] - j['range'][0]
            lo = max(lo, j['range'][0] + 0.05 * span)
            hi = min(hi, j['range'][1] - 0.05 * span)
          q.append(draw(num(lo, hi)))
    qs.append(q)
    if zero_qd:
      qds.append([0.0] * s['nv'])
    else:
      qds.append(draw(st.lists(num(*qd_range), min_size=s['nv'], max_size=s['nv'])))
    ctrls.append(draw(st.lists(num(*ctrl_range, specials=(0.0, 1.0, -1.0)), min_size=s['nu'], max_size=s['nu'])))
  return {'q': qs, 'qd': qds, 'ctrl': ctrls}


@st.composite
def model_and_states(draw, p=None, k=4, cls_list=None, shape=None, **state_kw):
  cls = draw(st.sampled_from(cls_list or CLASSES))
  spec = draw(model_spec(p, cls, shape))
  stt = draw(states(spec, k, **state_kw))
  return {'spec': spec, 'states': stt}
