"""Helpers shared by the physics checks: loading, MuJoCo reference, comparisons."""

import contextlib
import io

import numpy as np

from vf import modelgen
from vf.harness import HarnessError, Violation

_m = {}


def mods():
  if not _m:
    import jax
    from jax import numpy as jp
    import mujoco
    with contextlib.redirect_stdout(io.StringIO()), contextlib.redirect_stderr(io.StringIO()):
      from brax import actuator, base, com, contact, kinematics, math
      from brax.generalized import pipeline as gpipe
      from brax.io import mjcf
      from brax.positional import pipeline as ppipe
      from brax.spring import pipeline as spipe
    # MuJoCo prints compile/step warnings (e.g. near-singular inertia) to stderr and MUJOCO_LOG.TXT
    mujoco.set_mju_user_warning(lambda msg: None)
    _m.update(jax=jax, jp=jp, mujoco=mujoco, mjcf=mjcf, kinematics=kinematics, actuator=actuator, base=base,
              com=com, contact=contact, math=math, generalized=gpipe, spring=spipe, positional=ppipe)
  return _m


PIPELINES = ('generalized', 'spring', 'positional')


def load_brax(xml):
  """mjcf.loads on an in-domain document; an exception from brax here is a violation (classified by the caller)."""
  m = mods()
  with contextlib.redirect_stdout(io.StringIO()):
    return m['mjcf'].loads(xml)


def load_mj(xml):
  """Reference model compiled by MuJoCo itself from the same string.  A refusal is a generator bug."""
  m = mods()
  try:
    return m['mujoco'].MjModel.from_xml_string(xml)
  except Exception as e:  # pylint: disable=broad-except
    raise GeneratorReject(str(e)) from e


class GeneratorReject(Exception):
  pass


def check_structure(sys, spec):
  s = modelgen.structure(spec)
  got = (sys.q_size(), sys.qd_size(), sys.act_size(), sys.link_types, tuple(int(p) for p in sys.link_parents))
  exp = (s['nq'], s['nv'], s['nu'], s['link_types'], tuple(s['parents']))
  if got != exp:
    raise Violation('structure', f'system (nq, nv, nu, link_types, parents) = {got}, document says {exp}',
                    labels={'check': 'structure'})
  return s


def quat_diff(a, b):
  """max abs component difference of quaternions up to sign, per row."""
  a, b = np.asarray(a, float), np.asarray(b, float)
  return np.minimum(np.abs(a - b).max(-1), np.abs(a + b).max(-1))


def rel(a, b):
  a, b = np.asarray(a, float), np.asarray(b, float)
  if a.shape != b.shape:
    raise Violation('shape', f'shape {a.shape} vs reference {b.shape}')
  if a.size == 0:
    return 0.0
  d = np.abs(a - b)
  if not np.all(np.isfinite(d)):
    return float('inf')
  return float(d.max() / (1.0 + np.abs(b).max()))


def arr_states(states):
  return (np.array(states['q'], float), np.array(states['qd'], float),
          np.array(states['ctrl'], float).reshape(len(states['q']), -1))


def mj_set(mjm, d, q, qd, ctrl=None):
  d.qpos[:] = q
  d.qvel[:] = qd
  if ctrl is not None and mjm.nu:
    d.ctrl[:] = ctrl


def model_summary(spec):
  return {
      'links': len(spec['bodies']),
      'bodies': [('free' if b['free'] else '+'.join(j['type'] for j in b['joints'])) + f"<-{b['parent']}"
                 for b in spec['bodies']],
      'classes': modelgen.classes(spec), 'actuators': [a['kind'] for a in spec['acts']],
      'gravity': spec['gravity'],
  }


def nontrivial_model(spec):
  return len(spec['bodies']) >= 2 or any(b['quat'] != [1.0, 0.0, 0.0, 0.0] for b in spec['bodies'])


def floors_report(labels, programs, wanted):
  out = {}
  ok = True
  for k, frac in wanted.items():
    got = labels.get(k, 0) / max(1, programs)
    out[k] = {'fraction': round(got, 3), 'floor': frac}
    ok = ok and got >= frac
  out['floors_met'] = bool(ok)
  return out
